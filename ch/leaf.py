"""CrossHair contracts over real python-pest leaf functions (second engine, thorough tier).

Each private function's PEP-316 postcondition is searched for a counterexample by
`crosshair check`; "Confirmed over all paths" = holds within the `pre:` bounds.
"""

from pest.exceptions import error_context, join_with_limit
from pest.pairs import Position

_BREAKS = "\x0b\x0c\r\x1c\x1d\x1e\x85  "


def _ref_line_col(text: str, p: int):
    line, last = 1, -1
    for i in range(min(p, len(text))):
        if text[i] == "\n":
            line += 1
            last = i
    return line, p - last


def _line_col_matches_definition(text: str, p: int) -> bool:
    """
    pre: len(text) <= 4 and 0 <= p <= len(text)
    pre: all(c not in _BREAKS for c in text)
    post: _
    """
    return tuple(Position(text, p).line_col()) == _ref_line_col(text, p)


def _error_context_matches_definition(text: str, p: int) -> bool:
    """
    pre: len(text) <= 4 and 0 <= p <= len(text)
    pre: all(c not in _BREAKS for c in text)
    post: _
    """
    _line, lineno, col = error_context(text, p)
    return (lineno, col) == _ref_line_col(text, p)


def _error_context_never_raises(text: str, p: int) -> bool:
    """
    pre: len(text) <= 4 and 0 <= p <= len(text)
    post: _
    """
    line, lineno, col = error_context(text, p)
    return lineno >= 1 and col >= 1 and len(line) <= len(text)


def _join_with_limit_renders(a: str, b: str, c: str, n: int, limit: int) -> bool:
    """
    pre: len(a) <= 3 and len(b) <= 3 and len(c) <= 3 and 0 <= n <= 3 and -1 <= limit <= 14
    post: _
    """
    items = [a, b, c][:n]
    r = join_with_limit(items, ", ", " or ", limit)
    # C13 asks that message building never raises; the docstring's length promise is not part of the property
    # (and does not quite hold: the result can exceed the limit by len(last_separator) - len(separator))
    return isinstance(r, str)
