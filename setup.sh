#!/bin/bash
# Build the offline overlay venv used by every check (idempotent).
set -e
cd "$(dirname "$0")"
V=/verif/.venv
if [ ! -x "$V/bin/python" ] || ! "$V/bin/python" -c "import z3, crosshair, pest, regex" 2>/dev/null; then
  rm -rf "$V"
  /venv/bin/python -m venv "$V"
  echo "import site; site.addsitedir('/venv/lib/python3.12/site-packages')" > "$V/lib/python3.12/site-packages/_base.pth"
  PIP_NO_INDEX=1 "$V/bin/pip" install -q --no-index --find-links /opt/veriftools/wheels z3-solver crosshair-tool >/dev/null
  "$V/bin/python" -c "import z3, crosshair, pest, regex; print('overlay venv ok', z3.get_version_string())"
fi
mkdir -p /verif/evidence /verif/replays
