#!/bin/bash
# usage: tools/seed_reverify.sh <seed-id>  -- confirm a stored seed in a fresh scratch worktree of /repo HEAD
ID=$1; D=/verif/seeded/$ID; WT=/tmp/wt_rv_$$
git -C /repo worktree add -q --detach $WT HEAD || exit 2
cp $D/demo_*.py $WT/
DEMO=$(ls $WT/demo_*.py | head -1)
cd $WT
PYTHONPATH=$WT/src /venv/bin/python $DEMO > $D/demo_without_change.txt 2>&1; echo "exit=$?" >> $D/demo_without_change.txt
git apply $D/patch.diff || { echo "patch does not apply"; git -C /repo worktree remove --force $WT; exit 2; }
PYTHONPATH=$WT/src /venv/bin/python -m pytest -q -p no:cacheprovider --continue-on-collection-errors 2>&1 | tail -1 > $D/tests_with_change.txt
PYTHONPATH=$WT/src /venv/bin/python $DEMO > $D/demo_with_change.txt 2>&1; echo "exit=$?" >> $D/demo_with_change.txt
echo "tests: $(cat $D/tests_with_change.txt)"; echo "with change: $(tail -1 $D/demo_with_change.txt)"; echo "without change: $(tail -1 $D/demo_without_change.txt)"
cd /verif; git -C /repo worktree remove --force $WT
