import json, sys, collections
d = json.load(open(sys.argv[1]))
g = collections.defaultdict(list)
for k, v in d.items():
    g[tuple(v["kinds"])].append((k, v["witnesses"][0], v["details"][0][:int(sys.argv[2]) if len(sys.argv) > 2 else 160]))
for k, items in sorted(g.items(), key=lambda x: -len(x[1])):
    print(k, len(items))
    for it in items[: int(sys.argv[3]) if len(sys.argv) > 3 else 6]:
        print("    ", it)
