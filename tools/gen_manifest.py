"""Regenerate MANIFEST.json from the table below (authoring tool)."""
import json, sys
sys.path.insert(0, "/verif")

CHECKS = {
 "C01": ("translation_validation", "symbolic execution (symx+z3) of interpreter vs generated module on a generated grammar family (all inputs up to a length bound) and on the bundled grammars with symbolic windows",
         "Family F1 = expression kinds (116) x nesting contexts (25) x trivia configurations (18), plus the nested stack family: quick decides a pairwise covering (~8 300 grammars), thorough the full product (~47 000; the trivia-free part one character deeper) plus 400 seeded compositions. For every start rule, every input of length <= 4 (quick) / 4-5 (thorough) over the whole Unicode code space and listed start positions: Parser.parse and exec(Parser.generate()).parse return the same tree or the same furthest-failure position, with and without the optimizer; generate() is deterministic and its output compiles. Also the repository's 15 grammars on its own test inputs with 1-2 symbolic characters replaced / inserted. Bounded, not a proof: longer inputs and grammars outside the family are outside the claim.", "6 C01"),
 "C02": ("translation_validation", "symbolic execution (symx+z3): optimizer=None vs default pipeline, each single pass, pass permutations / repetitions / seeded sequences; interpreter and generated",
         "Same family, bundled grammars and bounds as C01; the unoptimized parser is compared per joint path with the default pipeline, each exported pass alone, the reversed pipeline, the pipeline twice and other orders (thorough: seeded sequences of length 2-6), interpreted and generated. The regex model exposes OptimizedChoice's alternation order, flags and case folding to the solver (case-insensitive literals on every code point).", "6 C02"),
 "C03": ("model_checking", "bounded symbolic execution of all four modes against an independent reference PEG semantics (refpeg)",
         "Trivia-free, stack-free, modifier-free slice of F1 and of the bundled grammars: outcome and tree equal refpeg's on every joint path for all inputs up to the bound. refpeg is validated at start-up against 122 pest-derived expected trees (golden file under /verif).", "6 C03"),
 "C04": ("model_checking", "bounded symbolic execution of all four modes against refpeg on grammars with WHITESPACE/COMMENT and rule modifiers",
         "Slice of F1 (and bundled grammars) with trivia and/or _ @ $ ! modifiers (nesting up to 3; silent / non-silent, multi-element and block-comment trivia): all four modes equal refpeg, which places trivia and hides pairs exactly as pest's generator does. All inputs up to the bound, so trivia is tried at every place.", "6 C04"),
 "C05": ("model_checking", "bounded symbolic execution of all four modes against refpeg on grammars with the stack operations in backtracking contexts",
         "Stack slice of F1 + the nested stack family + lists.pest / surround.pest (inputs up to length 5/6 so pushed text can recur; empty pushes; every PEEK slice shape): outcome and tree equal refpeg, whose stack is purely functional (every failing construct leaves no trace). The history reading of the property is discharged by C09's inductive step.", "6 C05"),
 "C06": ("model_checking", "symbolic execution; tree invariants asserted through the public Pair/Pairs API on every accepting path, content-level invariants on every path's witness",
         "All of F1 + stack family + bundled grammars x four modes: span bounds, ordering/nesting of children, names, tags, tokens() balance, flatten() pre-order, single root are asserted per accepting path (positions are concrete on a path); text/str/span/dump/dumps agreement is asserted on the path's concrete witness (json is a C boundary).", "6 C06"),
 "C07": ("model_checking", "symbolic execution of every start rule in four modes; any exception other than PestParsingError or a differing second call is a violation",
         "All of F1 + stack family + bundled grammars, every start rule, all inputs up to the bound: each path ends in Pairs or PestParsingError and a repeated call gives an equal result. Termination is bounded by a per-unit budget and a watchdog (an exhausted budget is reported inconclusive, never success).", "6 C07"),
 "C13": ("model_checking", "symbolic execution: failure position/name validity per rejecting path; error_context() and join_with_limit() decided for all arguments up to a bound; rendering on every path's witness; CrossHair as second engine (thorough)",
         "All of F1 + bundled grammars x four modes: furthest_pos in range or -1, listed names are rules/built-ins (per rejecting path, symbolic input). error_context(text,p) equals the line/column reference for every text of length <= 4/6 and every offset (symbolic text; '\\n' breaks, and all str.splitlines boundaries against a splitlines reference); join_with_limit with a symbolic limit never raises and returns a str. str(error) is evaluated on each path's concrete witness.", "6 C13"),
 "C16": ("model_checking", "symbolic execution: parse(text, start_pos=k) vs parse(text[k:]) shifted, same symbolic characters, all k",
         "SOI-free part of F1 and of the bundled grammars x four modes x all 1 <= k <= n: because the prefix characters are symbolic and unconstrained, equality on all paths is exactly 'characters before start_pos are never consulted'.", "6 C16"),
}
PENDING = {}

def main():
    try:
        from tools.manifest_more import MORE, NA
    except Exception:
        MORE, NA = {}, {}
    checks = []
    allc = dict(CHECKS); allc.update(MORE)
    for pid in sorted(allc):
        level, tech, text, ref = allc[pid]
        checks.append({
            "property_id": pid,
            "quick_cmd": f"./check {pid} --tier quick",
            "thorough_cmd": f"./check {pid} --tier thorough",
            "evidence_file": f"/verif/evidence/{pid}.json",
            "replay_cmd_template": f"./check {pid} --replay {{path}}",
            "engine": "symx",
            "level_claimed": {"category": level, "text": text, "design_ref": "DESIGN.md section " + ref},
            "level_note": "Trusted base: CPython, z3 5.1, the regex package's pattern parser and case/property tables; the regex C engine is modelled for symbolic subjects (vf/rxstub.py), validated against the real engine, and every explored path is re-run concretely on the real engine. Claims are bounded (input length, family) and say nothing outside the bounds.",
            "technique": tech,
        })
    props = [json.loads(l)["id"] for l in open("/verif/properties.jsonl")]
    na = []
    for pid in props:
        if pid not in allc:
            na.append({"property_id": pid, "reason": NA.get(pid, "check not built yet (work in progress in this session; not a statement about applicability)")})
    m = {
        "version": 1,
        "setup_cmd": "./setup.sh",
        "hooks": {
            "guard": "PYTHON_PEST_VERIF",
            "enable": "no hooks in /repo: the regex shim, symbolic-key containers and canary mutants are installed in the harness process only",
            "baseline_off_cmd": "cd /repo && /venv/bin/python -m pytest -ra -q -p no:cacheprovider --timeout=900 --continue-on-collection-errors",
            "source_commits": [],
            "add_only": True,
        },
        "engines": [
            {"name": "symx", "path": "/verif/vf/symx.py", "serves_properties": sorted(allc), "kind_free_text": "fork-by-replay symbolic executor (proxy objects + z3) running the real python-pest code; regex C engine modelled at AST level"},
            {"name": "crosshair", "path": "/verif/ch", "serves_properties": [p for p in ("C13", "C14") if p in allc], "kind_free_text": "CrossHair 0.0.110 (z3): independent second engine on the string leaf functions (line_col, error_context, join_with_limit), thorough tier only"},
        ],
        "checks": checks,
        "not_applicable": na,
        "notes": "Solver-based checking of the real code; see DESIGN.md. Exit codes: 0 held/known findings only, 1 VIOLATION, 3 harness error.",
    }
    json.dump(m, open("/verif/MANIFEST.json", "w"), indent=1)
    print("wrote MANIFEST.json with", len(checks), "checks;", len(na), "not claimed")

main()
