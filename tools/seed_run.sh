#!/bin/bash
# usage: tools/seed_run.sh <seed-id> <check args...>
# Runs a check against the seeded change.  The change is applied to a scratch worktree of /repo (under /tmp,
# removed afterwards) and the check is pointed at it with VERIF_REPO, so /repo itself stays untouched and
# long-running checks of the real tree are not disturbed.  SEED_INPLACE=1 applies to /repo itself instead.
ID=$1; shift
cd /verif
if [ -n "$SEED_INPLACE" ]; then
  git -C /repo diff --quiet || { echo "/repo not clean"; exit 2; }
  git -C /repo apply /verif/seeded/$ID/patch.diff || exit 2
  ./check "$@" > /tmp/seedrun_$ID.log 2>&1; RC=$?
  git -C /repo checkout -- .
else
  WT=/tmp/seedwt_$ID
  git -C /repo worktree remove --force $WT 2>/dev/null
  git -C /repo worktree add -q --detach $WT HEAD || exit 2
  git -C $WT apply /verif/seeded/$ID/patch.diff || { git -C /repo worktree remove --force $WT; echo "patch does not apply"; exit 2; }
  VERIF_REPO=$WT ./check "$@" > /tmp/seedrun_$ID.log 2>&1; RC=$?
  git -C /repo worktree remove --force $WT
fi
git -C /verif checkout -- evidence 2>/dev/null   # evidence written against a mutated tree is not evidence
echo "exit=$RC"; grep -E "^VIOLATION|^KNOWN|HARNESS|^C[0-9]+ " /tmp/seedrun_$ID.log | head -8 | cut -c1-260
grep -A1 "^VIOLATION" /tmp/seedrun_$ID.log | grep "unit=" | head -3 | cut -c1-400
