#!/bin/bash
# usage: tools/seed_run.sh <seed-id> <check args...>   -- apply the seed to /repo, run a check, always undo
ID=$1; shift
cd /verif
git -C /repo diff --quiet || { echo "/repo not clean"; exit 2; }
git -C /repo apply /verif/seeded/$ID/patch.diff || exit 2
./check "$@" > /tmp/seedrun_$ID.log 2>&1; RC=$?
git -C /repo checkout -- .
git -C /verif checkout -- evidence 2>/dev/null   # evidence written against a mutated tree is not evidence
echo "exit=$RC"; grep -E "^VIOLATION|^KNOWN|HARNESS|^C[0-9]+ " /tmp/seedrun_$ID.log | head -8 | cut -c1-260
grep -A1 "^VIOLATION" /tmp/seedrun_$ID.log | grep "unit=" | head -3 | cut -c1-400
