"""pytest plugin (authoring time only): record every Parser.parse call made by
passing tests in the 'not optimized' mode, to export golden cases for refpeg."""
import json, os
import pytest
import pest

CALLS = []
_cur = []
_orig_from = pest.Parser.from_grammar.__func__
_orig_parse = pest.Parser.parse

def from_grammar(cls, grammar, **kw):
    p = _orig_from(cls, grammar, **kw)
    p._verif_src = grammar
    p._verif_opt = kw.get("optimizer", "default") is not None
    return p

def parse(self, start_rule, text, *, start_pos=0):
    rec = {"g": getattr(self, "_verif_src", None), "opt": getattr(self, "_verif_opt", None), "rule": start_rule, "text": text, "k": start_pos}
    try:
        r = _orig_parse(self, start_rule, text, start_pos=start_pos)
    except pest.PestParsingError:
        rec["res"] = ["FAIL"]
        _cur.append(rec)
        raise
    def norm(p):
        return [p.name, p.start, p.end, p.tag, [norm(c) for c in p.children]]
    rec["res"] = ["OK", [norm(p) for p in r]]
    _cur.append(rec)
    return r

pest.Parser.from_grammar = classmethod(from_grammar)
pest.Parser.parse = parse

@pytest.hookimpl(hookwrapper=True)
def pytest_runtest_call(item):
    _cur.clear()
    outcome = yield
    if outcome.excinfo is None:
        for c in _cur:
            c["test"] = item.nodeid
            CALLS.append(dict(c))

def pytest_sessionfinish(session):
    with open(os.environ["VERIF_RECORD_OUT"], "w") as f:
        json.dump(CALLS, f)
