import json, sys, collections
d = json.load(open(sys.argv[1]))
groups = collections.defaultdict(list)
for k, v in d.items():
    prop, member, rule, nk = k.split("|")
    ctx, kind, triv = member.split("/")[-3:]
    groups[(kind, triv if len(sys.argv) < 3 else "*")].append((k, v))
for g, items in sorted(groups.items()):
    k, v = items[0]
    print(f"{g} x{len(items)}  e.g. {k}  kinds={v['kinds']} w={v['witnesses'][0]!r}\n      {v['details'][0][:260]}")
