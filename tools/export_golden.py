"""Authoring-time: turn recorded test calls into /verif/golden/refpeg.json."""
import json, sys
sys.path.insert(0, "/verif")
from vf import pestenv, convert
cp = pestenv.load_copy(stub=False, sym_builtin=False)
calls = [c for c in json.load(open("/tmp/calls.json")) if c["opt"] is False and c["g"]
         and "::test_example" not in c["test"]]  # test_example* only parse, they assert no tree
gram = {}
out = []
for c in calls:
    g = c["g"]
    if g not in gram:
        try:
            gram[g] = convert.conv_rules(cp.parser(g))
        except convert.NotConvertible as e:
            gram[g] = None
            print("not convertible", e)
    if gram[g] is None:
        continue
    out.append({"grammar": len(out) and None, "g": g, "rule": c["rule"], "text": c["text"], "k": c["k"], "res": c["res"], "test": c["test"]})
gl = sorted(set(o["g"] for o in out))
doc = {"grammars": [{"rules": gram[g]} for g in gl], "cases": [{"grammar": gl.index(o["g"]), "rule": o["rule"], "text": o["text"], "k": o["k"], "res": o["res"], "test": o["test"]} for o in out]}
json.dump(doc, open("/verif/golden/refpeg.json", "w"), indent=0)
print(len(gl), "grammars", len(out), "cases")
