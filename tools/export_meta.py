"""Authoring-time: neutral AST of tests/grammars/meta.pest -> golden/meta.json (with sha256)."""
import hashlib, json, sys
sys.path.insert(0, "/verif")
from vf import pestenv, convert, family
cp = pestenv.load_copy(stub=False, sym_builtin=False)
src = open("/repo/tests/grammars/meta.pest", encoding="utf-8").read()
rules = convert.conv_rules(cp.parser(src))
json.dump({"sha256": hashlib.sha256(src.encode()).hexdigest(), "rules": rules}, open("/verif/golden/meta.json", "w"), indent=0)
for r in rules:
    print(f"{r[0]} = {r[1]}{{ {family.show(r[2])} }}")
