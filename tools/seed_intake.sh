#!/bin/bash
# usage: tools/seed_intake.sh <seed-id> <worktree>   -- confirm a seeded change independently and store it under seeded/<id>/
set -e
ID=$1; WT=$2
D=/verif/seeded/$ID
mkdir -p $D
git -C $WT diff -- src examples > $D/patch.diff
test -s $D/patch.diff || { echo "empty diff"; exit 2; }
cp $WT/demo_*.py $D/ 2>/dev/null || true
DEMO=$(ls $WT/demo_*.py | head -1)
cd $WT
echo "--- tests with change:"; PYTHONPATH=$WT/src /venv/bin/python -m pytest -q -p no:cacheprovider --continue-on-collection-errors 2>&1 | tail -1 | tee $D/tests_with_change.txt
echo "--- demo with change:"; set +e; PYTHONPATH=$WT/src /venv/bin/python $DEMO > $D/demo_with_change.txt 2>&1; echo "exit=$?" | tee -a $D/demo_with_change.txt; tail -5 $D/demo_with_change.txt
# (no git stash here: the stash is shared by all worktrees of a repository, and concurrent users swap each other's changes)
git -C $WT diff > /tmp/intake_$ID.full.patch
git -C $WT apply -R /tmp/intake_$ID.full.patch
echo "--- demo without change:"; PYTHONPATH=$WT/src /venv/bin/python $DEMO > $D/demo_without_change.txt 2>&1; echo "exit=$?" | tee -a $D/demo_without_change.txt; tail -3 $D/demo_without_change.txt
git -C $WT apply /tmp/intake_$ID.full.patch; rm -f /tmp/intake_$ID.full.patch
set -e
