"""Independent RFC 8259 recogniser / structure builder over the str|SymStr API.

Returns spans, never values, so it runs on symbolic text; validated at start-up
against json.loads on a generated corpus (json itself is C / regex driven and
cannot be run symbolically).
"""

from __future__ import annotations

from . import symx
from .symx import SymStr, in_intervals

WS = ((0x09, 0x0A), (0x0D, 0x0D), (0x20, 0x20))
DIGIT = ((0x30, 0x39),)
DIGIT19 = ((0x31, 0x39),)
HEX = ((0x30, 0x39), (0x41, 0x46), (0x61, 0x66))
UNESCAPED = ((0x20, 0x21), (0x23, 0x5B), (0x5D, 0x10FFFF))
ESC1 = tuple((ord(c), ord(c)) for c in '"\\/bfnrt')


def cls(text, i, ivs) -> bool:
    if i >= len(text):
        return False
    if isinstance(text, str):
        c = ord(text[i])
        return any(lo <= c <= hi for lo, hi in ivs)
    c = text.ch[i]
    r = in_intervals(c, ivs)
    return r if isinstance(r, bool) else symx.engine().branch(r)


def lit(text, i, s) -> bool:
    if i + len(s) > len(text):
        return False
    if isinstance(text, str):
        return text.startswith(s, i)
    return text.startswith(s, i)


def ws(text, i) -> int:
    while cls(text, i, WS):
        i += 1
    return i


def value(text, i):
    """-> (struct, end) | None.  struct spans are (start, end)."""
    if lit(text, i, "{"):
        j = ws(text, i + 1)
        members = []
        if lit(text, j, "}"):
            return ("object", (i, j + 1), tuple(members)), j + 1
        while True:
            k = string(text, j)
            if k is None:
                return None
            key = (j, k)
            j = ws(text, k)
            if not lit(text, j, ":"):
                return None
            j = ws(text, j + 1)
            r = value(text, j)
            if r is None:
                return None
            members.append((key, r[0]))
            j = ws(text, r[1])
            if lit(text, j, "}"):
                return ("object", (i, j + 1), tuple(members)), j + 1
            if not lit(text, j, ","):
                return None
            j = ws(text, j + 1)
    if lit(text, i, "["):
        j = ws(text, i + 1)
        items = []
        if lit(text, j, "]"):
            return ("array", (i, j + 1), tuple(items)), j + 1
        while True:
            r = value(text, j)
            if r is None:
                return None
            items.append(r[0])
            j = ws(text, r[1])
            if lit(text, j, "]"):
                return ("array", (i, j + 1), tuple(items)), j + 1
            if not lit(text, j, ","):
                return None
            j = ws(text, j + 1)
    k = string(text, i)
    if k is not None:
        return ("string", (i, k)), k
    k = number(text, i)
    if k is not None:
        return ("number", (i, k)), k
    for w in ("true", "false", "null"):
        if lit(text, i, w):
            return (w, (i, i + len(w))), i + len(w)
    return None


def string(text, i):
    if not lit(text, i, '"'):
        return None
    i += 1
    while True:
        if i >= len(text):
            return None
        if lit(text, i, '"'):
            return i + 1
        if lit(text, i, "\\"):
            if cls(text, i + 1, ESC1):
                i += 2
                continue
            if lit(text, i + 1, "u") and all(cls(text, i + 2 + k, HEX) for k in range(4)):
                i += 6
                continue
            return None
        if cls(text, i, UNESCAPED):
            i += 1
            continue
        return None


def number(text, i):
    j = i
    if lit(text, j, "-"):
        j += 1
    if lit(text, j, "0"):
        j += 1
    elif cls(text, j, DIGIT19):
        j += 1
        while cls(text, j, DIGIT):
            j += 1
    else:
        return None
    if lit(text, j, ".") and cls(text, j + 1, DIGIT):
        j += 2
        while cls(text, j, DIGIT):
            j += 1
    if cls(text, j, ((0x45, 0x45), (0x65, 0x65))):
        k = j + 1
        if cls(text, k, ((0x2B, 0x2B), (0x2D, 0x2D))):
            k += 1
        if cls(text, k, DIGIT):
            k += 1
            while cls(text, k, DIGIT):
                k += 1
            j = k
    return j


def document(text):
    """-> struct if text is a JSON text whose top level is an array or object, else None."""
    i = ws(text, 0)
    r = value(text, i)
    if r is None or r[0][0] not in ("object", "array"):
        return None
    j = ws(text, r[1])
    if j != len(text):
        return None
    return r[0]


def ends_with_ws(text) -> bool:
    return len(text) > 0 and cls(text, len(text) - 1, WS)


# -- json.loads view of a struct (concrete text only), for the start-up self-test


def to_python(text: str, s):
    k = s[0]
    if k == "object":
        import json

        return {json.loads(text[a:b]): to_python(text, v) for (a, b), v in s[2]}
    if k == "array":
        return [to_python(text, v) for v in s[2]]
    if k == "string":
        import json

        return json.loads(text[s[1][0] : s[1][1]])
    if k == "number":
        return float(text[s[1][0] : s[1][1]])
    return {"true": True, "false": False, "null": None}[k]


def selftest() -> int:
    """Compare with json.loads on a generated corpus; returns number of documents checked."""
    import itertools
    import json

    atoms = ["0", "-0", "1", "-12", "0.5", "1e3", "1E+2", "2.5e-1", '"a"', '""', '"\\n"', '"\\u00e9"', '"\\""', "true", "false", "null", "[]", "{}", '{"a":1}', "[1,2]", "01", "1.", ".5", "+1", '"\x01"', "'a'", "tru", "nul", "[1,]", "{,}", '{"a"}', "1e", "--1", '"\\x"', '"\\u12"']
    wsx = ["", " ", "\n", "\t\r"]
    n = 0
    docs = []
    for a in atoms:
        for w1, w2 in itertools.product(wsx[:2], wsx):
            docs.append(f"{w1}[{w2}{a}{w1}]{w2}")
            docs.append(f'{w2}{{"k"{w1}:{w2}{a}}}')
            docs.append(f"{w1}{a}{w2}")
    for a, b in itertools.product(atoms[:20], repeat=2):
        docs.append(f"[{a},{b}]")
        docs.append(f'{{"x":{a}, "y":{b}}}')
        docs.append(f"[[{a}],{{\"z\":[{b}]}}]")
    docs += ["", " ", "[", "]", "{", "[[]", "[]]", "[] []", "[1 2]", '{"a":1,}', '{"a":1 "b":2}', "[\x0b]", "[ 1]", "[1]\x00"]
    for d in docs:
        try:
            want = json.loads(d)
            ok = isinstance(want, (list, dict))
        except ValueError:
            ok, want = False, None
        s = document(d)
        if (s is not None) != ok:
            raise AssertionError(f"jsonref disagrees with json.loads on {d!r}: ref={'accept' if s else 'reject'}")
        if ok:
            got = to_python(d, s)
            if _norm(got) != _norm(want):
                raise AssertionError(f"jsonref structure differs from json.loads on {d!r}: {got!r} vs {want!r}")
        n += 1
    return n


def _norm(x):
    if isinstance(x, bool) or x is None:
        return x
    if isinstance(x, (int, float)):
        return float(x)
    if isinstance(x, list):
        return [_norm(i) for i in x]
    if isinstance(x, dict):
        return [(k, _norm(v)) for k, v in x.items()]
    return x
