"""Replay handlers of the non-family units (registered by the property modules)."""

from __future__ import annotations

HANDLERS = {}


def register(name):
    def deco(fn):
        HANDLERS[name] = fn
        return fn

    return deco


def replay(spec: dict) -> list:
    import importlib

    mod = spec.get("module")
    if mod:
        importlib.import_module(mod)
    return HANDLERS[spec["type"]](spec)
