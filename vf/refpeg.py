"""refpeg - an independent evaluator of pest's PEG semantics over the neutral AST.

Written against pest's generator (generate_expr / generate_expr_atomic /
hidden::skip) and ParserState (sequence, optional, repeat, lookahead, atomic,
rule, stack_*, restore_on_err); it shares no code with python-pest and touches
the input only through startswith / single-character class tests, so it runs on
str and on SymStr alike.

Because every failing pest expression leaves the position unchanged and every
construct that turns a failure into continued parsing (choice, optional,
repetition, predicates) restores the stack, the semantics is a pure function
  eval(e, pos, stack, atomicity, in_lookahead) -> None | (pos, stack, pairs).
"""

from __future__ import annotations

from . import symx
from .family import ASCII_SETS
from .symx import SymStr, in_intervals

N, A, C = "nonatomic", "atomic", "compound"


class RefUnsupported(Exception):
    pass


def _class_at(text, pos, ivs) -> bool:
    if pos >= len(text):
        return False
    if isinstance(text, str):
        c = ord(text[pos])
        return any(lo <= c <= hi for lo, hi in ivs)
    return symx.engine().branch(in_intervals(text.ch[pos], ivs))


def _starts(text, lit, pos) -> bool:
    if pos + len(lit) > len(text):
        return False
    if isinstance(text, str) and isinstance(lit, str):
        return text.startswith(lit, pos)
    if isinstance(text, str):
        text = SymStr(tuple(map(ord, text)))
    return text.startswith(lit, pos)


class Ref:
    def __init__(self, rules_list, *, max_steps: int = 200000):
        self.rules = {name: (mod, expr) for name, mod, expr in rules_list}
        self.has_ws = "WHITESPACE" in self.rules
        self.has_cm = "COMMENT" in self.rules
        self.max_steps = max_steps

    # -- public --------------------------------------------------------------
    def parse(self, rule: str, text, start_pos: int = 0):
        self.text = text
        self.steps = 0
        r = self.call(rule, start_pos, (), N, False)
        if r is None:
            return ("FAIL",)
        return ("OK", tuple(r[2]))

    # -- rules ---------------------------------------------------------------
    def call(self, name, pos, stack, atom, look):
        if name == "EOI":
            if pos != len(self.text):
                return None
            pairs = [] if (look or atom == A) else [("EOI", pos, pos, None, ())]
            return pos, stack, pairs
        mod, body = self.rules[name]
        trivia = name in ("WHITESPACE", "COMMENT")
        if trivia:
            self.in_trivia = getattr(self, "in_trivia", 0) + 1
            try:
                return self._call(name, mod, body, trivia, pos, stack, atom, look)
            finally:
                self.in_trivia -= 1
        if getattr(self, "in_trivia", 0) and mod in ("", "@"):
            # pest's generator wraps trivia bodies in state.atomic(Atomic), which would hide the pair of a normal
            # rule called there; C04's statement only says the bodies are MATCHED atomically, so this is not asserted
            raise RefUnsupported("pair of a normal / @ rule called inside a WHITESPACE / COMMENT body (not pinned by the statement)")
        return self._call(name, mod, body, trivia, pos, stack, atom, look)

    def _call(self, name, mod, body, trivia, pos, stack, atom, look):
        if mod == "_":
            inner_atom = A if trivia else atom
            return self.ev(body, pos, stack, inner_atom, look)
        if mod == "":
            visible = not look and atom != A
            inner_atom = A if trivia else atom
        elif mod == "@":
            visible = not look and atom != A
            inner_atom = A
        elif mod == "$":
            visible = not look
            inner_atom = C
        elif mod == "!":
            visible = not look
            inner_atom = N
        else:
            raise RefUnsupported(mod)
        r = self.ev(body, pos, stack, inner_atom, look)
        if r is None:
            return None
        p2, st2, kids = r
        if visible:
            return p2, st2, [(name, pos, p2, None, tuple(kids))]
        # an invisible rule (normal/@ under Atomic) adds no token of its own, but
        # tokens queued by nested $ / ! rules stay in the queue
        return p2, st2, kids

    def skip(self, pos, stack, atom, look):
        """hidden::skip - (WHITESPACE | COMMENT)* when non-atomic."""
        pairs: list = []
        if atom != N or not (self.has_ws or self.has_cm):
            return pos, stack, pairs
        while True:
            progressed = False
            for nm in ("WHITESPACE", "COMMENT"):
                if nm not in self.rules:
                    continue
                r = self.call(nm, pos, stack, atom, look)
                if r is not None:
                    if r[0] == pos:
                        raise RefUnsupported("trivia rule matched empty")
                    pos, stack = r[0], r[1]
                    pairs.extend(r[2])
                    progressed = True
                    break
            if not progressed:
                return pos, stack, pairs

    # -- expressions ------------------------------------------------------------
    def ev(self, e, pos, stack, atom, look):  # noqa: PLR0911, PLR0912, PLR0915
        self.steps += 1
        if self.steps > self.max_steps:
            raise RefUnsupported("step budget")
        k = e[0]
        text = self.text
        if k == "str":
            return (pos + len(e[1]), stack, []) if _starts(text, e[1], pos) else None
        if k == "istr":
            p = pos
            for ch in e[1]:
                lo, up = ord(ch.lower()), ord(ch.upper())
                if ord(ch) > 0x7F:
                    raise RefUnsupported("non-ASCII case-insensitive literal")
                ivs = [(lo, lo)] if lo == up else [(up, up), (lo, lo)]
                if not _class_at(text, p, ivs):
                    return None
                p += 1
            return p, stack, []
        if k == "range":
            return (pos + 1, stack, []) if _class_at(text, pos, [(ord(e[1]), ord(e[2]))]) else None
        if k == "any":
            return (pos + 1, stack, []) if pos < len(text) else None
        if k == "soi":
            return (pos, stack, []) if pos == 0 else None
        if k == "eoi":
            return self.call("EOI", pos, stack, atom, look)
        if k == "builtin":
            nm = e[1]
            if nm in ASCII_SETS:
                return (pos + 1, stack, []) if _class_at(text, pos, ASCII_SETS[nm]) else None
            if nm == "NEWLINE":
                for lit in ("\n", "\r\n", "\r"):
                    if _starts(text, lit, pos):
                        return pos + len(lit), stack, []
                return None
            raise RefUnsupported(f"builtin {nm}")
        if k == "ref":
            return self.call(e[1], pos, stack, atom, look)
        if k == "seq":
            pairs: list = []
            p, st = pos, stack
            items = e[1:]
            for i, x in enumerate(items):
                r = self.ev(x, p, st, atom, look)
                if r is None:
                    return None
                p, st = r[0], r[1]
                pairs.extend(r[2])
                if i < len(items) - 1:
                    p, st, tp = self.skip(p, st, atom, look)
                    pairs.extend(tp)
            return p, st, pairs
        if k == "choice":
            for x in e[1:]:
                r = self.ev(x, pos, stack, atom, look)
                if r is not None:
                    return r
            return None
        if k == "opt":
            r = self.ev(e[1], pos, stack, atom, look)
            return r if r is not None else (pos, stack, [])
        if k == "star":
            return self._star(e[1], pos, stack, atom, look)
        if k == "plus":
            return self.ev(("seq", e[1], ("star", e[1])), pos, stack, atom, look)
        if k == "rep":
            _, x, m, n = e
            if n is None:
                items = [x] * m + [("star", x)]
            else:
                items = [x] * (m or 0) + [("opt", x)] * (n - (m or 0))
            if not items:
                return pos, stack, []
            return self.ev(("seq", *items), pos, stack, atom, look)
        if k == "and":
            r = self.ev(e[1], pos, stack, atom, True)
            return (pos, stack, []) if r is not None else None
        if k == "not":
            r = self.ev(e[1], pos, stack, atom, True)
            return (pos, stack, []) if r is None else None
        if k == "push":
            r = self.ev(e[1], pos, stack, atom, look)
            if r is None:
                return None
            return r[0], r[1] + (text[pos : r[0]],), r[2]
        if k == "pushlit":
            return pos, stack + (e[1],), []
        if k == "peek":
            if not stack or not _starts(text, stack[-1], pos):
                return None
            return pos + len(stack[-1]), stack, []
        if k == "pop":
            if not stack or not _starts(text, stack[-1], pos):
                return None
            return pos + len(stack[-1]), stack[:-1], []
        if k == "drop":
            return (pos, stack[:-1], []) if stack else None
        if k == "peekall":
            p = pos
            for lit in reversed(stack):
                if not _starts(text, lit, p):
                    return None
                p += len(lit)
            return p, stack, []
        if k == "popall":
            p = pos
            for lit in reversed(stack):
                if not _starts(text, lit, p):
                    return None
                p += len(lit)
            return p, (), []
        if k == "peekslice":
            a, b = e[1], e[2]
            ln = len(stack)
            a = 0 if a is None else (ln + a if a < 0 else a)
            b = ln if b is None else (ln + b if b < 0 else b)
            if a < 0 or a > ln or b < 0 or b > ln:
                raise RefUnsupported("PEEK slice out of range (pest behaviour not pinned by the statement)")
            p = pos
            for lit in stack[a:b]:
                if not _starts(text, lit, p):
                    return None
                p += len(lit)
            return p, stack, []
        if k == "tag":
            raise RefUnsupported("tags are outside the reference semantics")
        raise RefUnsupported(str(k))

    def _star(self, x, pos, stack, atom, look):
        # optional(x and_then repeat(sequence(skip and_then x)))
        r = self.ev(x, pos, stack, atom, look)
        if r is None:
            return pos, stack, []
        p, st, pairs = r[0], r[1], list(r[2])
        if p == pos and len(st) == len(stack):
            raise RefUnsupported("repetition over an expression that matched empty")
        while True:
            p2, st2, tp = self.skip(p, st, atom, look)
            r = self.ev(x, p2, st2, atom, look)
            if r is None:
                return p, st, pairs
            if r[0] == p and len(r[1]) == len(st):
                raise RefUnsupported("repetition over an expression that matched empty")
            p, st = r[0], r[1]
            pairs.extend(tp)
            pairs.extend(r[2])
