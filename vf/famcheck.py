"""Exploration of one family member under several execution modes, with the
per-property oracles for C01-C07, C13 and C16.

Every (member, start rule, length n, start position k) is explored with a fully
symbolic text; all modes (and the reference semantics, where applicable) run on
the same symbolic characters, so the comparison is per *joint* path.  Every
path's model is re-run concretely on the same objects (the regex shim passes
concrete subjects to the real engine) and must reproduce the path's results:
this validates proxies and stub on every path.
"""

from __future__ import annotations

import time
from typing import Any

import z3

from . import core, pestenv, symx
from .refpeg import Ref, RefUnsupported
from .symx import Engine, SymStr

_COPY_A = None  # never sees an optimizer
PASSES = ["unroll", "skip", "inline built-in", "squash_choice", "inline silent"]


def copy_a():
    global _COPY_A
    if _COPY_A is None:
        _COPY_A = pestenv.load_copy()
    return _COPY_A


class Modes:
    """Builds the execution modes of one grammar lazily; records build errors."""

    def __init__(self, grammar_text: str, modes: list[str], dedupe: bool = False):
        self.text = grammar_text
        self.parsers: dict[str, Any] = {}
        self.errors: dict[str, str] = {}
        self.sources: dict[str, str] = {}
        self._copies: dict[str, Any] = {}
        self.aliases: dict[str, str] = {}  # mode -> earlier mode with an identical rule tree / source
        sigs: dict[tuple, str] = {}
        for m in modes:
            try:
                p = self._build(m)
            except (symx.Unsupported, symx.Inconclusive):
                raise
            except Exception as e:  # noqa: BLE001
                self.errors[m] = f"{type(e).__name__}: {str(e)[:200]}"
                continue
            sig = self._signature(m, p)
            if dedupe and sig is not None and sig in sigs:
                self.aliases[m] = sigs[sig]
                continue
            if sig is not None:
                sigs[sig] = m
            self.parsers[m] = p

    def _signature(self, m: str, p):
        """Modes whose rule trees (interpreted) or sources (generated) are identical behave identically."""
        try:
            if m.partition(":")[0] in ("I", "IO"):
                return ("tree", p.tree_view(), "SKIP" in p.rules)
            return ("src", self.sources.get(m))
        except Exception:  # noqa: BLE001
            return None

    def _copy_for(self, cfg: str):
        if cfg == "":
            return copy_a()
        if cfg not in self._copies:
            self._copies[cfg] = pestenv.load_copy()
        return self._copies[cfg]

    def _build(self, m: str):
        base, _, cfg = m.partition(":")
        if base == "I":
            return copy_a().parser(self.text)
        if base == "G":
            p = self.parsers.get("I") or copy_a().parser(self.text)
            src = p.generate()
            self.sources[m] = src
            return copy_a().exec_generated(src)
        cp = self._copy_for("opt")  # one fresh copy per unit for every optimized configuration
        if base == "IO":
            if cfg:
                by_name = {s.name: s for s in cp.pest.DEFAULT_OPTIMIZER_PASSES}
                passes = [by_name[PASSES[int(i)]] for i in cfg.split(",") if i != ""]
                return cp.parser(self.text, passes=passes)
            return cp.parser(self.text, optimized=True)
        if base == "GO":
            key = "IO" + (":" + cfg if cfg else "")
            p = self.parsers.get(key)
            if p is None:
                p = self.parsers[key] = self._build(key)
            src = p.generate()
            self.sources[m] = src
            return cp.exec_generated(src)
        raise ValueError(m)


class Case:
    """One joint path (or one concrete replay) of a unit."""

    def __init__(self, prop, member, rule, n, k, text, modes: Modes, ref: Ref | None):
        self.prop, self.member, self.rule, self.n, self.k = prop, member, rule, n, k
        self.text, self.modes, self.ref = text, modes, ref
        self.res: dict[str, tuple] = {}
        self.obj: dict[str, Any] = {}
        self.refres = None

    def run(self):
        for m, p in self.modes.parsers.items():
            self.res[m], self.obj[m] = pestenv.run_parse_exc(p, self.rule, self.text, self.k)
        for m, err in self.modes.errors.items():
            self.res[m] = ("BUILD-EXC", err)
        if self.ref is not None:
            try:
                self.refres = self.ref.parse(self.rule, self.text, self.k)
            except RefUnsupported as e:
                self.refres = ("UNSUPPORTED", str(e))
        return self


def outcome(r: tuple) -> tuple:
    """Outcome + tree, ignoring failure positions."""
    if r[0] == "FAIL":
        return ("FAIL",)
    return r


# ---------------------------------------------------------------------------
# oracles: each returns a list of (kind, detail)


def oracle_c01(c: Case):
    out = []
    for a, b in (("I", "G"), ("IO", "GO")):
        if a in c.res and b in c.res and c.res[a] != c.res[b]:
            out.append((f"{a}!={b}", f"{a}={c.res[a]} {b}={c.res[b]}"))
    return out


def oracle_c02(c: Case):
    out = []
    for m in c.res:
        base, _, cfg = m.partition(":")
        if base in ("IO", "GO"):
            ref_mode = "I" if base == "IO" else "G"
            if ref_mode in c.res and outcome(c.res[ref_mode]) != outcome(c.res[m]):
                out.append((f"{ref_mode}!={m}", f"{ref_mode}={c.res[ref_mode]} {m}={c.res[m]}"))
    return out


def oracle_ref(c: Case):
    out = []
    if c.refres is None or c.refres[0] == "UNSUPPORTED":
        return out
    for m, r in c.res.items():
        if outcome(r) != c.refres:
            out.append((f"{m}!=ref", f"{m}={r} ref={c.refres}"))
    return out


def _tree_invariants(c: Case, mode: str, pairs) -> list[str]:  # noqa: PLR0912
    """C06 invariants through the public Pair/Pairs API (positions are concrete)."""
    bad: list[str] = []
    n, k = c.n, c.k
    names = {r[0] for r in c.member["rules"] if r[1] != "_"} | {"EOI"}
    tags = set(c.member.get("tags", ("tg",)))
    start_mod = {r[0]: r[1] for r in c.member["rules"]}.get(c.rule)

    def visit(p, lo, hi, depth):
        if not (k <= p.start <= p.end <= n):
            bad.append(f"span {p.name} {p.start}..{p.end} outside {k}..{n}")
        if not (lo <= p.start and p.end <= hi):
            bad.append(f"child {p.name} {p.start}..{p.end} outside parent {lo}..{hi}")
        if p.name not in names:
            bad.append(f"name {p.name!r} is not a non-silent rule")
        if p.tag is not None and p.tag not in tags:
            bad.append(f"tag {p.tag!r} not in grammar")
        sp = p.span()
        if (sp.start, sp.end) != (p.start, p.end):
            bad.append("span() disagrees with start/end")
        if list(p.inner()) != list(p.children):
            bad.append("inner() disagrees with children")
        prev = p.start
        for ch in p.children:
            if ch.start < prev:
                bad.append(f"children of {p.name} overlap / out of order at {ch.start}")
            prev = max(prev, ch.end)
            visit(ch, p.start, p.end, depth + 1)

    prev = k
    for p in pairs:
        if p.start < prev:
            bad.append(f"top-level pairs overlap / out of order at {p.start}")
        prev = max(prev, p.end)
        visit(p, k, n, 0)
    # tokens(): balanced, non-decreasing
    stack, last = [], k
    for t in pairs.tokens():
        if t.pos < last:
            bad.append(f"tokens() position decreases at {t.pos}")
        last = t.pos
        if type(t).__name__ == "Start":
            stack.append(t.rule.name)
        else:
            if not stack or stack.pop() != t.rule.name:
                bad.append("tokens() not balanced")
    if stack:
        bad.append("tokens() not balanced (unclosed)")
    n_tokens = sum(1 for _ in pairs.tokens())
    # flatten() is the pre-order
    pre = []

    def walk(p):
        pre.append(p)
        for ch in p.children:
            walk(ch)

    for p in pairs:
        walk(p)
    fl = list(pairs.flatten())
    if len(fl) != len(pre) or any(a is not b for a, b in zip(fl, pre)):
        bad.append("flatten() is not the pre-order")
    if n_tokens != 2 * len(pre):
        bad.append(f"tokens() has {n_tokens} tokens for {len(pre)} pairs (flatten() is the pre-order of the Start tokens)")
    # the same accessors on every inner(): flatten() pre-order, tokens() balanced, len / indexing / iteration agree
    for p in pre:
        if not p.children:
            continue
        inner = p.inner()
        sub: list = []

        def walk2(q, sub=sub):
            sub.append(q)
            for ch in q.children:
                walk2(ch)

        for ch in p.children:
            walk2(ch)
        got = list(inner.flatten())
        if len(got) != len(sub) or any(a is not b for a, b in zip(got, sub)):
            bad.append(f"{p.name}.inner().flatten() is not the pre-order of its children")
        if len(inner) != len(p.children) or [inner[i] for i in range(len(inner))] != list(p.children):
            bad.append(f"{p.name}.inner(): len / indexing disagree with children")
        toks = list(inner.tokens())
        if len(toks) != 2 * len(sub):
            bad.append(f"{p.name}.inner().tokens() has {len(toks)} tokens for {len(sub)} pairs")
    if start_mod is not None and start_mod != "_":
        if len(pairs) != 1 or pairs[0].start != k or pairs[0].name != c.rule:
            bad.append(f"non-silent start rule yields {len(pairs)} root pair(s) / wrong start")
    return bad


def _tree_text_invariants(text: str, pairs) -> list[str]:
    """Content-level C06 invariants; evaluated on concrete witnesses only."""
    import json as _json

    bad = []
    for p in pairs.flatten():
        want = text[p.start : p.end]
        if p.text != want or str(p) != want or str(p.span()) != want or p.as_str() != want:
            bad.append(f"text of {p.name} {p.start}..{p.end} is not the input slice")
    try:
        d = pairs.dump()
        s_compact = pairs.dumps()
        s_json = pairs.dumps(compact=False)
        if _json.loads(s_json) != _json.loads(_json.dumps(d)):
            bad.append("dumps(compact=False) disagrees with dump()")

        def count(x):
            return sum(1 + count(i["inner"]) for i in x)

        def leaves(x):
            for i in x:
                if i["inner"]:
                    yield from leaves(i["inner"])
                else:
                    yield i

        # compact rendering: one "name" per pair, leaf texts json-encoded
        for leaf in leaves(d):
            if f'{leaf["rule"]}: {_json.dumps(leaf["span"]["str"])}' not in s_compact:
                bad.append("dumps() misses a leaf that dump() has")
                break
        for item in pairs.flatten():
            if item.tag is not None and f"{item.tag} {item.name}" not in s_compact:
                bad.append(f"dumps() does not show tag {item.tag!r} of {item.name}")
                break
        for item in pairs.flatten():
            dd = item.dump()
            if dd["span"]["start"] != item.start or dd["span"]["end"] != item.end or dd["span"]["str"] != text[item.start : item.end]:
                bad.append("dump() span disagrees with the pair")
                break
    except Exception as e:  # noqa: BLE001
        bad.append(f"dump()/dumps() raised {type(e).__name__}: {e}")
    return bad


def oracle_c06(c: Case):
    out = []
    for m, r in c.res.items():
        if r[0] != "OK":
            continue
        bad = _tree_invariants(c, m, c.obj[m])
        if isinstance(c.text, str):
            bad += _tree_text_invariants(c.text, c.obj[m])
        if bad:
            out.append((f"{m}:tree", "; ".join(bad[:4])))
    return out


def oracle_c07(c: Case):
    out = []
    for m, r in c.res.items():
        if r[0] in ("EXC", "BUILD-EXC"):
            out.append((f"{m}:exc", f"{r}"))
    for m, p in c.modes.parsers.items():
        again = pestenv.run_parse(p, c.rule, c.text, c.k)
        if again != c.res[m]:
            out.append((f"{m}:nondeterministic", f"first={c.res[m]} second={again}"))
    return out


def _is_nl(text, i) -> bool:
    ch = text[i]
    return ch == "\n"  # str compare, or SymStr.__eq__ -> solver branch


def _line_col_ref(text, p):
    """Reference: (line, col, start, end) of offset p in a text with '\\n' line breaks.

    line = 1 + number of line breaks before p; col = 1 + distance from the last
    line break; [start, end) is the content of that line without its break.
    """
    line, last = 1, -1
    for i in range(min(p, len(text))):
        if _is_nl(text, i):
            line += 1
            last = i
    end = len(text)
    for i in range(max(p, 0), len(text)):
        if _is_nl(text, i):
            end = i
            break
    return line, p - last, last + 1, end


def _same_chars(a, b) -> bool:
    """Equality of two str / SymStr values; symbolic positions are decided by the solver."""
    ca, cb = symx.chars_of(a), symx.chars_of(b)
    if len(ca) != len(cb):
        return False
    conds = []
    for x, y in zip(ca, cb):
        xi, yi = isinstance(x, int), isinstance(y, int)
        if xi and yi:
            if x != y:
                return False
        elif xi or yi or not x.eq(y):
            conds.append(symx._ceq(x, y))
    if not conds:
        return True
    return symx.engine().branch(symx._conj(conds))


def oracle_c13(c: Case):
    out = []
    names = {r[0] for r in c.member["rules"]}
    for m, r in c.res.items():
        if r[0] != "FAIL":
            continue
        e = c.obj[m]
        st = e.state
        p = st.furthest_pos
        if not (p == -1 or c.k <= p <= c.n):
            out.append((f"{m}:pos", f"furthest_pos={p} outside {c.k}..{c.n}"))
        bad_names = []
        for d in (st.furthest_expected, st.furthest_unexpected):
            for key in d:
                if isinstance(key, SymStr) or (key not in names and key not in _builtin_names(c)):
                    bad_names.append(key)
        for fr in st.furthest_stack:
            if fr.name not in names and fr.name not in _builtin_names(c):
                bad_names.append(fr.name)
        if bad_names:
            out.append((f"{m}:names", f"not rules of the grammar: {bad_names!r}"))
        if not isinstance(c.text, str):
            continue  # rendering is evaluated on the concrete witness of every path (see run_member)
        try:
            msg = str(e)
            if not isinstance(msg, str):
                out.append((f"{m}:render", "str() did not return str"))
            _ = e.detailed_message()
        except Exception as ex:  # noqa: BLE001
            out.append((f"{m}:render", f"str(error) raised {type(ex).__name__}: {ex}"))
            continue
        if p >= 0 and not any(chr(b) in c.text for b in symx.LINE_BOUNDARIES if b != 0x0A):
            ec = _error_context(c)
            line, lineno, col = ec(c.text, p)
            rl, rc, ls, le = _line_col_ref(c.text, p)
            want_line = c.text[ls:le].rstrip() if le > ls else ""
            if (lineno, col) != (rl, rc) or line != want_line:
                out.append((f"{m}:linecol", f"p={p} shown={lineno}:{col} want={rl}:{rc} line[{ls}:{le}]"))
            if f"{lineno}:{col}" not in msg:
                out.append((f"{m}:linecol", f"message does not show {lineno}:{col}"))
    return out


def _error_context(c: Case):
    return copy_a().modules["pest.exceptions"].error_context


_BN = None


def _builtin_names(c: Case):
    global _BN
    if _BN is None:
        _BN = set(dict.keys(copy_a().pest.Parser.BUILTIN))
    return _BN


def shift_result(r: tuple, k: int) -> tuple:
    def sh(p):
        return (p[0], p[1] + k, p[2] + k, p[3], tuple(sh(x) for x in p[4]))

    if r[0] == "OK":
        return ("OK", tuple(sh(p) for p in r[1]))
    if r[0] == "FAIL":
        return ("FAIL", r[1] + k if r[1] >= 0 else r[1])
    return r


def oracle_c16(c: Case):
    out = []
    if c.k == 0:
        return out
    suffix = c.text[c.k :]
    for m, p in c.modes.parsers.items():
        r0 = pestenv.run_parse(p, c.rule, suffix, 0)
        if shift_result(r0, c.k) != c.res[m]:
            out.append((f"{m}:shift", f"start_pos={c.k}: {c.res[m]} ; suffix at 0 shifted: {shift_result(r0, c.k)}"))
    return out


ORACLES = {
    "C01": oracle_c01,
    "C02": oracle_c02,
    "C03": oracle_ref,
    "C04": oracle_ref,
    "C05": oracle_ref,
    "C06": oracle_c06,
    "C07": oracle_c07,
    "C13": oracle_c13,
    "C16": oracle_c16,
}


# ---------------------------------------------------------------------------
# the unit


@core.task_fn("family")
def run_member(task: dict) -> dict:
    """task: unit, prop, member, rule, nks [(n,k)...], modes [..], use_ref, regions {key: region},
    max_paths, budget_s, assume ('ascii'|'nolinebreaks'|None)."""
    prop = task["prop"]
    member = task["member"]
    res = core.new_result(task["unit"])
    oracle = ORACLES[prop]
    t_end = time.time() + task.get("budget_s", 120)
    try:
        modes = Modes(member["text"], task["modes"], dedupe=prop == "C02")
    except (symx.Unsupported, symx.Inconclusive) as e:
        res["inconclusive"].append(("build", str(e)))
        return res
    ref = Ref(member["rules"]) if task.get("use_ref") else None
    # case-insensitive literals: pest defines them for ASCII only, so the reference slice (C03-C05) stays
    # ASCII; properties that compare python-pest with itself take every code point
    ascii_only = ("istr" in member["features"] and bool(task.get("use_ref"))) or task.get("assume") == "ascii"
    no_other_breaks = False
    if prop == "C01":
        # side conditions: generate() deterministic (same object, twice)
        for m, p in modes.parsers.items():
            if m.startswith("I"):
                try:
                    if p.generate() != p.generate():
                        res["failures"].append(_static_failure(task, "generate-nondeterministic", m))
                except Exception as e:  # noqa: BLE001
                    res["failures"].append(_static_failure(task, f"generate-exc {type(e).__name__}: {e}", m))
        for m, err in modes.errors.items():
            res["failures"].append(_static_failure(task, f"build-exc {err}", m))

    for rule, n, k in [(r, nk[0], nk[1]) for r, nks in task["rules"] for nk in nks]:
        # n: a length (all texts of that length) or a template [str | int, ...] (concrete parts, symbolic windows)
        parts = n if isinstance(n, (list, tuple)) else None
        if parts is not None:
            key = f"{rule}|t{_template_id(parts)}k{k}"
            n = sum(p if isinstance(p, int) else len(p) for p in parts)
        else:
            key = f"{rule}|n{n}k{k}"
        eng = Engine()
        holder: dict[str, Any] = {}

        def fn(e, n=n, k=k, rule=rule, parts=parts):
            if parts is not None:
                text = SymStr.template(e, parts, prefix="c", hi=0x7F if ascii_only else symx.MAXCP) if any(isinstance(p, int) for p in parts) else "".join(parts)
            else:
                text = SymStr.fresh(e, n, hi=0x7F if ascii_only else symx.MAXCP) if n else ""
            if no_other_breaks and n:
                for ch in text.ch:
                    for b in symx.LINE_BOUNDARIES:
                        if b != 0x0A:
                            e.assume(ch != b)
            holder["text"] = text
            c = Case(prop, member, rule, n, k, text, modes, ref).run()
            fails = oracle(c)
            return c.res, c.refres, fails

        region = task.get("regions", {}).get(key)
        try:
            for pr in eng.explore(fn, max_paths=task.get("max_paths", 20000), deadline=t_end):
                if pr.status != "ok":
                    res["inconclusive"].append((key, f"{pr.status}: {pr.reason}"))
                    text = holder.get("text")
                    if pr.model is None or text is None:
                        continue
                    # no verdict for this path; its witness is still run on the real objects, and a
                    # property failure there is a (replayed) violation like any other
                    w = text.concrete(pr.model) if isinstance(text, SymStr) else text
                    cc = Case(prop, member, rule, n, k, w, modes, ref).run()
                    cfails = oracle(cc)
                    res["witness_only"] = res.get("witness_only", 0) + 1
                    if cfails:
                        res["failures"].append(
                            {
                                "key": key,
                                "kind": ",".join(sorted({f[0] for f in cfails})),
                                "detail": ("witness of a path without verdict: " + " | ".join(f[1] for f in cfails))[:600],
                                "witness": w,
                                "pc": "true",
                                "vars": [],
                                "status": "new",
                                "finding": None,
                                "replay": {"type": "family", "prop": prop, "grammar": member["text"], "rules": member["rules"], "features": sorted(member["features"]),
                                           "tags": sorted(member.get("tags", ("tg",))), "rule": rule, "text": w, "k": k, "modes": task["modes"], "use_ref": bool(task.get("use_ref"))},
                            }
                        )
                    continue
                results, refres, fails = pr.value
                text = holder["text"]
                w = text.concrete(pr.model) if isinstance(text, SymStr) else text
                first = next(iter(results.values()), ("?",))
                if first[0] == "OK":
                    res["accepting"] += 1
                else:
                    res["rejecting"] += 1
                # concrete validation of the path on the same objects
                cc = Case(prop, member, rule, n, k, w, modes, ref).run()
                cfails = oracle(cc)
                if cc.res != results or cc.refres != refres or [f[0] for f in cfails] != [f[0] for f in fails]:
                    if prop in ("C06", "C13") and cc.res == results and {f[0] for f in fails} <= {f[0] for f in cfails}:
                        fails = cfails  # content-level checks exist only concretely
                    else:
                        res["harness_errors"].append(
                            f"path/concrete mismatch unit={task['unit']} {key} witness={w!r}: sym={results} ref={refres} fails={fails} ; conc={cc.res} ref={cc.refres} fails={cfails}"[:1500]
                        )
                        continue
                res["validated"] += 1
                if len(res["samples"]) < 2 and n >= 1:
                    res["samples"].append({"grammar": member["text"], "rule": rule, "n": n, "k": k, "witness": w, "result": str(first)[:200]})
                if fails:
                    vars_by_name = {str(v): v for v in _vars_of(text)}
                    status, other = core.classify_failure(pr.pc, region, vars_by_name)
                    wit = w
                    if status == "new" and other is not None and isinstance(text, SymStr):
                        # a point of the failing path outside the known region
                        wit = "".join(chr(other.get(str(ch), pr.model.get(str(ch), 0))) if not isinstance(ch, int) else chr(ch) for ch in text.ch)
                    res["failures"].append(
                        {
                            "key": key,
                            "kind": ",".join(sorted({f[0] for f in fails})),
                            "detail": " | ".join(f[1] for f in fails)[:600],
                            "witness": wit,
                            "pc": z3.simplify(core.pc_formula(pr.pc)).sexpr(),
                            "vars": sorted(vars_by_name),
                            "status": status,
                            "finding": region.get("finding") if region and status == "known" else None,
                            "replay": {
                                "type": "family",
                                "prop": prop,
                                "grammar": member["text"],
                                "rules": member["rules"],
                                "features": sorted(member["features"]),
                                "tags": sorted(member.get("tags", ("tg",))),
                                "rule": rule,
                                "text": wit,
                                "k": k,
                                "modes": task["modes"],
                                "use_ref": bool(task.get("use_ref")),
                            },
                        }
                    )
        except symx.Inconclusive as e:
            res["inconclusive"].append((key, str(e)))
        core.absorb_engine(res, eng)
    return res


def _template_id(parts) -> str:
    import hashlib

    return hashlib.sha1(repr(list(parts)).encode()).hexdigest()[:8]


def _vars_of(text):
    if isinstance(text, SymStr):
        return [c for c in text.ch if not isinstance(c, int)]
    return []


def _static_failure(task, what, mode):
    return {
        "key": "static",
        "kind": f"{mode}:{what.split()[0]}",
        "detail": what,
        "witness": "",
        "pc": "true",
        "vars": [],
        "status": "new",
        "finding": None,
        "replay": {
            "type": "family-static",
            "prop": task["prop"],
            "grammar": task["member"]["text"],
            "mode": mode,
        },
    }
