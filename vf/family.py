"""Neutral grammar AST, pest-text printer, well-formedness analysis and the
generated grammar family F (DESIGN.md 5.2).

Expressions are tuples:
  ("str", s) ("istr", s) ("range", lo, hi) ("any",) ("soi",) ("eoi",)
  ("builtin", NAME) ("ref", name)
  ("seq", e...) ("choice", e...) ("opt", e) ("star", e) ("plus", e)
  ("rep", e, m, n)      m/n None = open  ({n} is m == n)
  ("and", e) ("not", e)
  ("push", e) ("pushlit", s) ("peek",) ("peekslice", a, b) ("peekall",)
  ("pop",) ("popall",) ("drop",)
  ("tag", t, e)
A grammar is a list of rules (name, modifier, expr); modifier in "", "_", "@", "$", "!".
"""

from __future__ import annotations

import hashlib
import itertools
import random
from typing import Any, Iterator

Expr = tuple
Rule = tuple  # (name, modifier, expr)

ASCII_SETS = {
    "ASCII_DIGIT": [(0x30, 0x39)],
    "ASCII_NONZERO_DIGIT": [(0x31, 0x39)],
    "ASCII_BIN_DIGIT": [(0x30, 0x31)],
    "ASCII_OCT_DIGIT": [(0x30, 0x37)],
    "ASCII_HEX_DIGIT": [(0x30, 0x39), (0x41, 0x46), (0x61, 0x66)],
    "ASCII_ALPHA_LOWER": [(0x61, 0x7A)],
    "ASCII_ALPHA_UPPER": [(0x41, 0x5A)],
    "ASCII_ALPHA": [(0x41, 0x5A), (0x61, 0x7A)],
    "ASCII_ALPHANUMERIC": [(0x30, 0x39), (0x41, 0x5A), (0x61, 0x7A)],
    "ASCII": [(0x00, 0x7F)],
}


# ---------------------------------------------------------------------------
# printing


def _q(s: str) -> str:
    out = []
    for ch in s:
        if ch == '"':
            out.append('\\"')
        elif ch == "\\":
            out.append("\\\\")
        elif ch == "\n":
            out.append("\\n")
        elif ch == "\r":
            out.append("\\r")
        elif ch == "\t":
            out.append("\\t")
        elif ord(ch) < 0x20 or ord(ch) > 0x7E:
            out.append("\\u{%04x}" % ord(ch) if ord(ch) <= 0xFFFF else "\\u{%06x}" % ord(ch))
        else:
            out.append(ch)
    return '"' + "".join(out) + '"'


def _qc(ch: str) -> str:
    if ch == "'":
        return "'\\''"
    if ch == "\\":
        return "'\\\\'"
    if ord(ch) < 0x20 or ord(ch) > 0x7E:
        if ord(ch) <= 0xFF:
            return "'\\x%02x'" % ord(ch)
        return "'\\u{%04x}'" % ord(ch) if ord(ch) <= 0xFFFF else "'\\u{%06x}'" % ord(ch)
    return f"'{ch}'"


_ATOMS = {"str", "istr", "range", "any", "soi", "eoi", "builtin", "ref", "push", "pushlit", "peek", "peekslice", "peekall", "pop", "popall", "drop"}


def show(e: Expr) -> str:
    k = e[0]
    if k == "str":
        return _q(e[1])
    if k == "istr":
        return "^" + _q(e[1])
    if k == "range":
        return f"{_qc(e[1])}..{_qc(e[2])}"
    if k == "any":
        return "ANY"
    if k == "soi":
        return "SOI"
    if k == "eoi":
        return "EOI"
    if k == "builtin":
        return e[1]
    if k == "ref":
        return e[1]
    if k == "seq":
        return " ~ ".join(_paren(x, {"seq", "choice"}) for x in e[1:])
    if k == "choice":
        return " | ".join(_paren(x, {"choice"}) for x in e[1:])
    if k == "opt":
        return _operand(e[1]) + "?"
    if k == "star":
        return _operand(e[1]) + "*"
    if k == "plus":
        return _operand(e[1]) + "+"
    if k == "rep":
        _, x, m, n = e
        if m is not None and m == n:
            b = "{%d}" % m
        elif n is None:
            b = "{%d,}" % m
        elif m is None:
            b = "{,%d}" % n
        else:
            b = "{%d,%d}" % (m, n)
        return _operand(x) + b
    if k == "and":
        return "&" + _operand(e[1])
    if k == "not":
        return "!" + _operand(e[1])
    if k == "push":
        return f"PUSH({show(e[1])})"
    if k == "pushlit":
        return f"PUSH_LITERAL({_q(e[1])})"
    if k == "peek":
        return "PEEK"
    if k == "peekslice":
        a = "" if e[1] is None else str(e[1])
        b = "" if e[2] is None else str(e[2])
        return f"PEEK[{a}..{b}]"
    if k == "peekall":
        return "PEEK_ALL"
    if k == "pop":
        return "POP"
    if k == "popall":
        return "POP_ALL"
    if k == "drop":
        return "DROP"
    if k == "raw":
        return e[1]
    if k == "tag":
        inner = e[2]
        if inner[0] in ("ref",) or inner[0] in _ATOMS:
            return f"#{e[1]} = {show(inner)}"
        return f"#{e[1]} = ({show(inner)})"
    raise ValueError(e)


def _paren(e: Expr, kinds) -> str:
    return f"({show(e)})" if e[0] in kinds or e[0] == "tag" and False else show(e)


def _operand(e: Expr) -> str:
    if e[0] in _ATOMS:
        return show(e)
    return f"({show(e)})"


def show_grammar(rules: list[Rule]) -> str:
    return "\n".join(f"{name} = {mod}{{ {show(expr)} }}" for name, mod, expr in rules)


def gid(rules: list[Rule]) -> str:
    return hashlib.sha1(show_grammar(rules).encode()).hexdigest()[:10]


# ---------------------------------------------------------------------------
# static analysis


def children(e: Expr) -> list[Expr]:
    k = e[0]
    if k in ("seq", "choice"):
        return list(e[1:])
    if k in ("opt", "star", "plus", "and", "not", "push"):
        return [e[1]]
    if k == "rep":
        return [e[1]]
    if k == "tag":
        return [e[2]]
    return []


def walk(e: Expr) -> Iterator[Expr]:
    yield e
    for c in children(e):
        yield from walk(c)


def nullable(e: Expr, rules: dict[str, Rule], seen=()) -> bool:
    """May e succeed without consuming input?  (conservative: True when unsure)"""
    k = e[0]
    if k in ("str", "istr", "pushlit"):
        return k == "pushlit" or len(e[1]) == 0
    if k in ("range", "any", "builtin"):
        return False
    if k in ("soi", "eoi", "and", "not", "opt", "star", "peekall", "popall", "drop"):
        return True
    if k in ("peek", "pop"):
        return bool(rules.get("__emptypush__"))  # an empty entry makes PEEK / POP match nothing
    if k == "peekslice":
        return True
    if k == "ref":
        if e[1] in seen:
            return False
        r = rules.get(e[1])
        if r is None:
            return False
        return nullable(r[2], rules, seen + (e[1],))
    if k == "seq":
        return all(nullable(x, rules, seen) for x in e[1:])
    if k == "choice":
        return any(nullable(x, rules, seen) for x in e[1:])
    if k == "plus":
        return nullable(e[1], rules, seen)
    if k == "rep":
        return (e[2] or 0) == 0 or nullable(e[1], rules, seen)
    if k in ("push",):
        return nullable(e[1], rules, seen)
    if k == "tag":
        return nullable(e[2], rules, seen)
    if k == "raw":
        return bool(e[2])
    raise ValueError(e)


def well_formed(rules_list: list[Rule]) -> bool:
    """No left recursion, no repetition over nullable, no {0}/{,0}, refs defined."""
    rules = {r[0]: r for r in rules_list}
    rules["__emptypush__"] = any(
        (e[0] == "push" and nullable(e[1], rules)) or (e[0] == "pushlit" and e[1] == "") for _n, _m, body in rules_list for e in walk(body)
    )
    builtin_names = set(ASCII_SETS) | {"NEWLINE", "LETTER", "ANY", "SOI", "EOI"}
    for _name, _mod, body in rules_list:
        for e in walk(body):
            k = e[0]
            if k in ("star", "plus") and nullable(e[1], rules) and e[1][0] not in ("drop", "pop"):
                return False  # (DROP* / POP* are fine: every iteration removes a stack entry, and both fail on an empty stack)
            if k == "rep":
                if nullable(e[1], rules):
                    return False
                if e[3] is not None and e[3] == 0:
                    return False
                if e[2] is not None and e[3] is not None and e[2] > e[3]:
                    return False
            if k == "ref" and e[1] not in rules and e[1] not in builtin_names:
                return False
            if k == "raw" and any(n not in rules for n in e[3]):
                return False

    # left recursion: rule reachable from itself through leftmost positions
    def firsts(e, acc):
        k = e[0]
        if k == "ref":
            acc.add(e[1])
        elif k == "seq":
            for x in e[1:]:
                firsts(x, acc)
                if not nullable(x, rules):
                    break
        elif k == "choice":
            for x in e[1:]:
                firsts(x, acc)
        else:
            for c in children(e):
                firsts(c, acc)

    edges = {}
    for name, _m, body in rules_list:
        acc: set[str] = set()
        firsts(body, acc)
        edges[name] = acc & set(rules)
    for start in edges:
        stack, seen = list(edges[start]), set()
        while stack:
            x = stack.pop()
            if x == start:
                return False
            if x in seen:
                continue
            seen.add(x)
            stack.extend(edges.get(x, ()))
    return True


def features(rules_list: list[Rule]) -> set[str]:
    f: set[str] = set()
    for name, mod, body in rules_list:
        if name in ("WHITESPACE", "COMMENT"):
            f.add("trivia")
            f.add(name)
        if mod:
            f.add("mod" + mod)
        for e in walk(body):
            f.add(e[0])
            if e[0] == "builtin":
                f.add(e[1])
            if e[0] == "raw":
                f.update(e[4])
    if f & {"push", "pushlit", "peek", "peekslice", "peekall", "pop", "popall", "drop"}:
        f.add("stack")
    return f


# ---------------------------------------------------------------------------
# the family

S = lambda s: ("str", s)  # noqa: E731
A, B, C = S("a"), S("b"), S("c")

AUX = {
    "x": ("x", "", ("str", "a")),
    "y": ("y", "", ("seq", S("a"), ("opt", S("b")))),
    "s": ("s", "_", ("seq", S("a"), ("opt", ("ref", "x")))),
    "at": ("at", "@", ("seq", S("a"), ("ref", "x"))),
    "cp": ("cp", "$", ("seq", S("a"), ("ref", "x"))),
    "na": ("na", "!", ("seq", S("a"), ("ref", "x"))),
    "atcp": ("atcp", "@", ("seq", S("a"), ("ref", "cp"))),
    "atna": ("atna", "@", ("ref", "na")),
    "cpat": ("cpat", "$", ("seq", ("ref", "x"), ("ref", "at"))),
    "atnax": ("atnax", "@", ("seq", ("ref", "x"), ("ref", "na"), ("ref", "x"))),
    "c1": ("c1", "$", ("str", "a")),
    "n1": ("n1", "!", ("str", "b")),
    "hn": ("hn", "", ("seq", ("ref", "c1"), ("ref", "n1"))),
    "sc": ("sc", "_", ("choice", ("str", "b"), ("ref", "x"))),
    "xy": ("xy", "", ("seq", ("ref", "x"), ("str", "b"))),
    "sl": ("sl", "_", ("choice", ("str", "a"), ("str", "b"))),
    "sf": ("sf", "_", ("seq", ("ref", "x"), ("str", "!"))),
    "sg": ("sg", "_", ("seq", ("ref", "x"), ("ref", "sf"))),
    "sgrp": ("sgrp", "_", ("raw", '(x | "b" ~ x)', False, ("x",), ("choice", "seq", "ref", "str"))),  # a silent rule whose whole body is one parenthesised group
    "sk": ("sk", "_", ("star", ("seq", ("not", ("str", "a")), ("any",)))),  # a rule that IS the skip idiom (always succeeds)
    "cpany": ("cpany", "", ("star", ("any",))),
    "pf": ("pf", "", ("seq", ("pushlit", "a"), ("str", "!"))),
    "qf": ("qf", "", ("seq", ("pop",), ("str", "!"))),
}

DEFINED_FIRST = {"sk"}

# name -> (expr, needs_stack_prelude)
KINDS: dict[str, tuple[Expr, bool]] = {
    "lit1": (A, False),
    "lit2": (S("ab"), False),
    "ilit": (("istr", "ab"), False),
    # case-insensitive literals whose letters have non-ASCII case variants (k: KELVIN SIGN, s: LONG S) or a
    # multi-character fold (ss: SHARP S, st: ligatures), alone and in choices the optimizer squashes
    "ilitk": (("istr", "k"), False),
    "ilitst": (("istr", "st"), False),
    "ilitalt": (("choice", ("istr", "ss"), S("x")), False),
    "ilitalt1": (("choice", ("istr", "k"), S("x"), ("istr", "s")), False),
    # prefix-sharing choices with case-insensitive members (ordered choice must keep its order when squashed)
    # a predicate over a rule / group that is itself the skip idiom: !sk never succeeds, so the outer loop matches nothing
    "skipnested": (("seq", ("star", ("seq", ("not", ("ref", "sk")), ("any",))), ("ref", "cpany")), False),
    "skipnested3": (("seq", ("star", ("seq", ("not", ("star", ("seq", ("not", S("a")), ("any",)))), ("any",))), ("opt", ("ref", "x")), ("star", ("any",))), False),
    "skipnested2": (("seq", ("star", ("seq", ("not", ("choice", S("b"), ("ref", "sk"))), ("any",))), ("opt", ("ref", "x"))), False),
    "skipidiomci": (("seq", ("star", ("seq", ("not", ("istr", "ab")), ("any",))), ("istr", "ab")), False),
    "skipidiomci2": (("seq", ("star", ("seq", ("not", ("choice", ("istr", "k"), S("b"))), ("any",))), ("any",)), False),
    "choice1pt": (("choice", ("range", "a", "a"), ("range", "c", "b"), S("x"), ("range", "b", "b")), False),  # one-point and empty ranges among alternatives
    "choiceci": (("choice", A, ("istr", "ab")), False),
    "choiceci2": (("choice", ("range", "a", "c"), ("istr", "ab"), B), False),
    "choiceci3": (("choice", ("istr", "a"), S("ab"), ("istr", "abc")), False),
    "range": (("range", "a", "c"), False),
    "rangecaret": (("choice", ("seq", ("range", "^", "b"), ("range", "]", "a")), ("range", "-", "0")), False),  # end points that are special inside a regex set
    "any": (("any",), False),
    "digit": (("builtin", "ASCII_DIGIT"), False),
    "hex": (("builtin", "ASCII_HEX_DIGIT"), False),
    "newline": (("builtin", "NEWLINE"), False),
    "alpha": (("builtin", "ASCII_ALPHA"), False),
    "alnum": (("plus", ("builtin", "ASCII_ALPHANUMERIC")), False),
    "ascii": (("builtin", "ASCII"), False),
    "asciimix": (("seq", ("choice", ("builtin", "ASCII_ALPHA_UPPER"), ("builtin", "ASCII_OCT_DIGIT")), ("opt", ("choice", ("builtin", "ASCII_ALPHA_LOWER"), ("builtin", "ASCII_NONZERO_DIGIT"), ("builtin", "ASCII_BIN_DIGIT")))), False),
    "letter": (("builtin", "LETTER"), False),
    "eoi": (("eoi",), False),
    "soi": (("soi",), False),
    "ref": (("ref", "x"), False),
    "ref2": (("ref", "y"), False),
    "silent": (("ref", "s"), False),
    "atomic": (("ref", "at"), False),
    "compound": (("ref", "cp"), False),
    "nonatomic": (("ref", "na"), False),
    "atcp": (("ref", "atcp"), False),
    "atna": (("ref", "atna"), False),
    "cpat": (("ref", "cpat"), False),
    "atnax": (("ref", "atnax"), False),
    "seq": (("seq", A, B), False),
    "seq3": (("seq", A, ("opt", B), A), False),
    "choice": (("choice", A, S("ab")), False),
    "choice2": (("choice", S("ab"), A, ("range", "0", "9")), False),
    "choice3": (("choice", ("seq", A, B), ("seq", A, C)), False),
    "opt": (("opt", A), False),
    "star": (("star", A), False),
    "plus": (("plus", A), False),
    "rep2": (("rep", A, 2, 2), False),
    "rep1": (("rep", A, 1, 1), False),
    "repmin": (("rep", A, 1, None), False),
    "repmin2": (("rep", A, 2, None), False),
    "repmax": (("rep", A, None, 2), False),
    "repminmax": (("rep", A, 1, 2), False),
    "rep0min": (("rep", A, 0, None), False),  # an explicit 0 as the lower bound: e{0,} and e{0,n}
    "rep0max": (("seq", ("rep", ("ref", "x"), 0, 2), ("opt", B)), False),
    "starx": (("star", ("ref", "x")), False),
    "plusx": (("plus", ("ref", "x")), False),
    "plusseq": (("plus", ("seq", A, B)), False),
    "and": (("and", A), False),
    "not": (("not", A), False),
    "andx": (("and", ("ref", "x")), False),
    "notx": (("not", ("ref", "x")), False),
    "skipidiom": (("star", ("seq", ("not", ("choice", S("ab"), C)), ("any",))), False),
    "vis2": (("seq", ("ref", "c1"), ("ref", "n1")), False),
    "hidvis": (("ref", "hn"), False),
    "vis3": (("seq", ("ref", "hn"), ("ref", "c1")), False),
    "skipidiom2": (("star", ("seq", ("not", ("choice", S("ba"), S("ab"))), ("any",))), False),
    "silentchoice": (("choice", S("ab"), ("ref", "sc")), False),
    "cmref": (("seq", ("ref", "COMMENT"), B), False),
    "wsref": (("seq", ("ref", "WHITESPACE"), B), False),
    "silentlit": (("seq", ("choice", ("ref", "sl"), C, S("d")), ("opt", ("ref", "sl"))), False),
    "altsilentfail": (("choice", ("ref", "sf"), ("ref", "x")), False),
    "altsilentfail2": (("choice", ("ref", "sg"), ("seq", ("ref", "x"), ("ref", "x"))), False),
    "optsilentfail": (("seq", ("opt", ("ref", "sf")), ("ref", "x")), False),
    "starsilentfail": (("seq", ("star", ("ref", "sf")), ("ref", "x")), False),
    "optpf": (("seq", ("opt", ("ref", "pf")), ("peekall",)), False),
    "repmaxpf": (("seq", ("rep", ("ref", "pf"), None, 2), ("peekall",)), False),
    "optqf": (("seq", ("opt", ("ref", "qf")), ("peekall",)), True),
    "starpf": (("seq", ("star", ("ref", "pf")), ("peekall",)), False),
    "notpf": (("seq", ("not", ("ref", "pf")), ("peekall",)), False),
    "tagsilent": (("tag", "tg", ("ref", "s")), False),
    "tagsilentgrp": (("seq", ("tag", "tg", ("ref", "sgrp")), ("opt", ("tag", "tg", ("ref", "sgrp")))), False),
    "tagrefnested": (("tag", "tg", ("ref", "xy")), False),
    "tagrefnested2": (("seq", ("tag", "tg", ("ref", "xy")), ("opt", ("tag", "tg", ("ref", "x")))), False),
    "tagplus": (("raw", "#tg = (x)+", False, ("x",), ("tag", "plus")), False),
    "tagstar": (("raw", "#tg = (x ~ \"b\"?)*", True, ("x",), ("tag", "star")), False),
    "tagref": (("tag", "tg", ("ref", "x")), False),
    "taggrp": (("tag", "tg", ("seq", ("ref", "x"), B)), False),
    "soieoi": (("seq", ("soi",), ("eoi",)), False),
    "pushemptypeek": (("seq", ("push", ("opt", A)), ("peek",), B), False),
    "pushemptypop": (("seq", ("push", ("star", A)), B, ("pop",)), False),
    "pushemptydrop": (("seq", ("push", ("opt", A)), ("choice", ("seq", ("drop",), B), C), ("not", ("drop",))), False),
    "pushlitempty": (("seq", ("pushlit", ""), ("not", ("not", ("peek",))), ("peekall",), ("pop",)), False),
    "push": (("push", ("choice", A, B)), False),
    "pushx": (("push", ("ref", "x")), False),
    "pushlit": (("pushlit", "a"), False),
    "peek": (("peek",), True),
    "peek01": (("peekslice", 0, 1), True),
    "peekopen": (("peekslice", None, None), True),
    "peekneg1": (("peekslice", -1, None), True),
    "peek0open": (("peekslice", 0, None), True),
    "peekm2m1": (("seq", ("pushlit", "a"), ("peekslice", -2, -1)), True),
    "peek12": (("seq", ("pushlit", "a"), ("peekslice", 1, 2)), True),
    "peek02": (("seq", ("pushlit", "a"), ("peekslice", 0, 2)), True),
    "peekopenm1": (("seq", ("pushlit", "a"), ("peekslice", None, -1)), True),
    # a literal 0 as the stop (the empty slice) and as the start
    "peekto0": (("peekslice", None, 0), True),
    "peek00": (("seq", ("pushlit", "a"), ("peekslice", 0, 0)), True),
    "peek10": (("seq", ("pushlit", "a"), ("peekslice", 1, 0)), True),
    "peekm10": (("seq", ("pushlit", "a"), ("peekslice", -1, 0)), True),
    # zero-width iterations that still make progress on the stack
    "dropstar": (("seq", ("pushlit", "a"), ("star", ("drop",)), ("peekall",)), True),
    "popstar": (("seq", ("pushlit", ""), ("star", ("pop",)), ("opt", ("drop",))), True),
    "dropplus": (("seq", ("plus", ("drop",)), ("not", ("peek",))), True),
    "peekall": (("peekall",), True),
    "pop": (("pop",), True),
    "popall": (("popall",), True),
    "drop": (("drop",), True),
}


def _ctx(name: str, e: Expr):
    """Return (rule r body, r modifier, extra rules) or None."""
    if name == "top":
        return e, "", []
    if name == "seqL":
        return ("seq", e, C), "", []
    if name == "seqR":
        return ("seq", C, e), "", []
    if name == "alt1":
        return ("choice", ("seq", e, C), ("seq", A, B)), "", []
    if name == "alt2":
        return ("choice", ("seq", A, C), e), "", []
    if name == "opt":
        return ("seq", ("opt", e), C), "", []
    if name == "star":
        return ("seq", ("star", e), C), "", []
    if name == "plus":
        return ("plus", e), "", []
    if name == "rep2":
        return ("rep", e, 2, 2), "", []
    if name == "repmin":
        return ("seq", ("rep", e, 1, None), C), "", []
    if name == "repmax":
        return ("seq", ("rep", e, None, 2), C), "", []
    if name == "repminmax":
        return ("rep", e, 1, 2), "", []
    if name == "and":
        return ("seq", ("and", e), ("any",)), "", []
    if name == "not":
        return ("seq", ("not", e), ("any",)), "", []
    if name == "push":
        return ("seq", ("push", e), ("peek",)), "", []
    if name in ("m_", "m@", "m$", "m!"):
        return ("seq", ("ref", "inner"), C), "", [("inner", name[1], e)]
    if name in ("a_", "a@", "a$", "a!"):
        return ("seq", ("ref", "inner"), C), "@", [("inner", name[1], ("seq", e, ("opt", A)))]
    if name == "a=":
        return ("seq", ("ref", "inner"), C), "@", [("inner", "", ("seq", e, ("opt", A)))]
    if name == "$!":
        return ("seq", ("ref", "inner"), C), "$", [("inner", "!", ("seq", e, ("opt", A)))]
    raise ValueError(name)


CONTEXTS = [
    "top", "seqL", "seqR", "alt1", "alt2", "opt", "star", "plus", "rep2", "repmin",
    "repmax", "repminmax", "and", "not", "push", "m_", "m@", "m$", "m!", "a_", "a@",
    "a$", "a!", "$!", "a=",
]  # fmt: skip

WS1 = ("WHITESPACE", "_", ("str", " "))
WS2 = ("WHITESPACE", "_", ("choice", ("str", " "), ("str", "\t")))
WSN = ("WHITESPACE", "", ("str", " "))
WSM = ("WHITESPACE", "_", ("seq", ("str", " "), ("str", "_")))
CM = ("COMMENT", "_", ("seq", ("str", "#"), ("str", "!")))
CMN = ("COMMENT", "", ("seq", ("str", "#"), ("str", "!")))

# block comment: the usual "open ~ (!close ~ ANY)* ~ close" shape (a negative predicate and the skip idiom inside trivia)
CMB = ("COMMENT", "_", ("seq", ("str", "#"), ("star", ("seq", ("not", ("str", "!")), ("any",))), ("str", "!")))

TRIVIA: dict[str, list[Rule]] = {
    "none": [],
    "ws": [WS1],
    "ws2": [WS2],
    "wsn": [WSN],
    "wsm": [WSM],
    "cm": [CM],
    "cmn": [CMN],
    "both": [WS2, CM],
    "bothn": [WSN, CMN],
    "bothn1": [WSN, ("COMMENT", "", ("str", "#"))],
    "bothm": [WSM, CM],  # a multi-element WHITESPACE that can match half way, next to a COMMENT
    "cmb": [CMB],
    # a comment that touches the user stack before it can fail: a partial match has to be undone on the stack too
    # comments whose body calls other rules: pest runs trivia bodies atomically, so a normal rule inside yields no pair
    # while a $ rule does
    "cmr": [("COMMENT", "_", ("seq", ("str", "#"), ("choice", ("ref", "n1"), ("ref", "x"))))],
    "bothr": [WS2, ("COMMENT", "", ("seq", ("str", "#"), ("ref", "x")))],
    "cmrf": [("COMMENT", "_", ("seq", ("str", "#"), ("ref", "x"), ("str", "!")))],  # yields a pair, then can still fail
    "cmstack": [("COMMENT", "_", ("seq", ("str", "#"), ("push", ("str", "!")), ("str", "a"), ("drop",)))],
    "bothstack": [WS2, ("COMMENT", "", ("seq", ("str", "#"), ("push", ("opt", ("str", "!"))), ("str", "a"), ("pop",)))],
    "bothb": [WS2, CMB],
}


def build(ctx: str, kind: str, triv: str) -> list[Rule] | None:
    e, needs_stack = KINDS[kind]
    got = _ctx(ctx, e)
    if got is None:
        return None
    body, mod, extra = got
    if needs_stack:
        body = ("seq", ("push", ("any",)), body) if ctx not in ("top",) else ("seq", ("push", ("any",)), body)
    rules: list[Rule] = [("r", mod, body)] + extra
    used = set()
    pending = [body] + [x[2] for x in extra] + [t[2] for t in TRIVIA[triv]]
    while pending:
        for sub in walk(pending.pop()):
            names = [sub[1]] if sub[0] == "ref" else list(sub[3]) if sub[0] == "raw" else []
            for nm in names:
                if nm in AUX and nm not in used:
                    used.add(nm)
                    pending.append(AUX[nm][2])
    for name in AUX:
        if name in used:
            if name in DEFINED_FIRST:
                rules.insert(0, AUX[name])  # rules are optimized in definition order: this one before its users
            else:
                rules.append(AUX[name])
    rules += TRIVIA[triv]
    if not well_formed(rules):
        return None
    return rules


def family(trivs: list[str] | None = None, ctxs=None, kinds=None, pick=None) -> list[dict[str, Any]]:
    """Deterministic list of family members: dict(id, ctx, kind, triv, rules, text).

    `pick(ctx_index, kind_index, triv)` (optional) selects a sub-family of the product."""
    out = []
    seen = set()
    for triv in trivs or list(TRIVIA):
        for ci, ctx in enumerate(ctxs or CONTEXTS):
            for ki, kind in enumerate(kinds or list(KINDS)):
                if pick is not None and not pick(ci, ki, triv):
                    continue
                rules = build(ctx, kind, triv)
                if rules is None:
                    continue
                text = show_grammar(rules)
                if text in seen:
                    continue
                seen.add(text)
                out.append(
                    {
                        "id": f"{ctx}/{kind}/{triv}",
                        "ctx": ctx,
                        "kind": kind,
                        "triv": triv,
                        "rules": rules,
                        "text": text,
                        "features": features(rules),
                    }
                )
    return out


def stack_family() -> list[dict[str, Any]]:
    """Nested stack grammars: an inner construct commits stack changes (pops below the
    level of an enclosing backtracking point), then the enclosing construct fails or is
    a predicate, and a tail observes the stack."""
    PUSHX = ("push", ("any",))
    PA = ("pushlit", "a")
    POP, DROP, PEEKALL, POPALL = ("pop",), ("drop",), ("peekall",), ("popall",)
    muts = {
        "pop2": ("seq", POP, POP),
        "drop2": ("seq", DROP, DROP),
        "popall": POPALL,
        "drop1": DROP,
        "pop1": POP,
        "drop2push": ("seq", DROP, DROP, ("pushlit", "c")),
        "droppush": ("seq", DROP, ("pushlit", "b")),
    }
    inners = {
        "plain": lambda m: m,
        "opt": lambda m: ("opt", m),
        "alt": lambda m: ("choice", m, S("zz")),
        "and-then": lambda m: ("seq", ("and", m), m),
    }
    outers = {
        "alt": lambda body, t: ("choice", ("seq", body, S("!")), t),
        "opt": lambda body, t: ("seq", ("opt", ("seq", body, S("!"))), t),
        "star": lambda body, t: ("seq", ("star", ("seq", body, S("!"))), t),
        "and": lambda body, t: ("seq", ("and", body), t),
        "not": lambda body, t: ("seq", ("not", ("seq", body, S("!"))), t),
    }
    tails = {"peekall": PEEKALL, "pop": POP, "dropdrop": ("seq", DROP, ("opt", DROP), ("opt", DROP))}
    out = []
    for on, of in outers.items():
        for inn, inf in inners.items():
            for mn, m in muts.items():
                for tn, t in tails.items():
                    body = ("seq", PA, inf(m))
                    expr = ("seq", PUSHX, of(body, t))
                    rules = [("r", "", expr)]
                    if not well_formed(rules):
                        continue
                    out.append({"id": f"stk/{on}.{inn}/{mn}/{tn}", "ctx": f"stk.{on}.{inn}", "kind": mn, "triv": tn, "rules": rules, "text": show_grammar(rules), "features": features(rules)})
    # predicates applied directly to one stack terminal, then a tail that observes the stack
    for tn, t in tails.items():
        for mn, m in (("pop1", POP), ("drop1", DROP), ("popall", POPALL), ("pushlit", PA), ("peekall", PEEKALL)):
            for pn, pred in (("and", "and"), ("notnot", "notnot")):
                pe = ("and", m) if pred == "and" else ("not", ("not", m))
                expr = ("seq", PUSHX, pe, t)
                rules = [("r", "", expr)]
                if well_formed(rules):
                    out.append({"id": f"stk/{pn}bare/{mn}/{tn}", "ctx": f"stk.{pn}bare", "kind": mn, "triv": tn, "rules": rules, "text": show_grammar(rules), "features": features(rules)})
    # three snapshots deep
    deep = ("seq", PUSHX, ("choice", ("seq", PA, ("choice", ("seq", ("pushlit", "b"), ("opt", ("seq", DROP, DROP, DROP)), S("!")), ("seq", DROP, S("?"))), S("#")), PEEKALL))
    rules = [("r", "", deep)]
    out.append({"id": "stk/deep3/drop3/peekall", "ctx": "stk.deep3", "kind": "drop3", "triv": "peekall", "rules": rules, "text": show_grammar(rules), "features": features(rules)})
    return out


def start_rules(member) -> list[str]:
    return [r[0] for r in member["rules"] if r[0] not in ("WHITESPACE", "COMMENT")]


def uses_ci(member) -> bool:
    return "istr" in member["features"]


# ---------------------------------------------------------------------------
# F2: seeded depth-2 compositions


def family2(seed: int, count: int, *, stack: bool = False, trivs=("none", "ws", "both", "cmn")) -> list[dict[str, Any]]:
    rnd = random.Random(seed)
    kinds = [k for k, (_e, st) in KINDS.items() if not st or stack]
    ctxs = [c for c in CONTEXTS if c not in ("top",)]
    out = []
    tries = 0
    while len(out) < count and tries < count * 20:
        tries += 1
        k = rnd.choice(kinds)
        c1, c2 = rnd.choice(ctxs), rnd.choice(ctxs)
        triv = rnd.choice(list(trivs))
        e, needs_stack = KINDS[k]
        g1 = _ctx(c1, e)
        b1, m1, x1 = g1
        if any(r[0] == "inner" for r in x1):
            x1 = [("inner1", r[1], r[2]) for r in x1]
            b1 = _rename(b1, "inner", "inner1")
        if m1:
            # keep the modifier by wrapping into its own rule
            x1 = x1 + [("mid", m1, b1)]
            b1 = ("ref", "mid")
        g2 = _ctx(c2, b1)
        body, mod, x2 = g2
        if needs_stack:
            body = ("seq", ("push", ("any",)), body)
        rules = [("r", mod, body)] + x2 + x1
        used, pending = set(), [r[2] for r in rules]
        while pending:
            for sub in walk(pending.pop()):
                if sub[0] == "ref" and sub[1] in AUX and sub[1] not in used:
                    used.add(sub[1])
                    pending.append(AUX[sub[1]][2])
        rules += [AUX[n] for n in AUX if n in used]
        rules += TRIVIA[triv]
        if len({r[0] for r in rules}) != len(rules) or not well_formed(rules):
            continue
        text = show_grammar(rules)
        out.append(
            {
                "id": f"F2/{c2}.{c1}/{k}/{triv}",
                "ctx": f"{c2}.{c1}",
                "kind": k,
                "triv": triv,
                "rules": rules,
                "text": text,
                "features": features(rules),
            }
        )
    return out


def _rename(e: Expr, old: str, new: str) -> Expr:
    if e[0] == "ref":
        return ("ref", new) if e[1] == old else e
    if e[0] in ("seq", "choice"):
        return (e[0],) + tuple(_rename(x, old, new) for x in e[1:])
    if e[0] in ("opt", "star", "plus", "and", "not", "push"):
        return (e[0], _rename(e[1], old, new))
    if e[0] == "rep":
        return ("rep", _rename(e[1], old, new), e[2], e[3])
    if e[0] == "tag":
        return ("tag", e[1], _rename(e[2], old, new))
    return e
