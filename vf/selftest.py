"""Self-tests of the oracles that depend only on files under /verif."""
from __future__ import annotations

import json
import os

from .refpeg import Ref, RefUnsupported

HERE = os.path.dirname(os.path.dirname(os.path.abspath(__file__)))


def _tup(x):
    if isinstance(x, list):
        return tuple(_tup(i) for i in x)
    return x


def refpeg_golden(verbose: bool = False) -> dict:
    doc = json.load(open(os.path.join(HERE, "golden", "refpeg.json")))
    refs = [Ref([tuple(_tup(r)) for r in g["rules"]]) for g in doc["grammars"]]
    ok = bad = skipped = 0
    problems = []
    for c in doc["cases"]:
        ref = refs[c["grammar"]]
        try:
            got = ref.parse(c["rule"], c["text"], c["k"])
        except RefUnsupported as e:
            skipped += 1
            if verbose:
                print("skip", c["test"], e)
            continue
        want = _tup(c["res"])
        if got == want:
            ok += 1
        else:
            bad += 1
            problems.append((c["test"], c["rule"], c["text"][:40], want, got))
    return {"ok": ok, "bad": bad, "skipped": skipped, "problems": problems}


if __name__ == "__main__":
    r = refpeg_golden(verbose=True)
    for p in r["problems"]:
        print("MISMATCH", p)
    print({k: v for k, v in r.items() if k != "problems"})
