"""Replay a recorded counterexample against the real, un-stubbed library.

usage: python -m vf.replay <replay.json>     exit 1 = violation reproduces,
                                              exit 0 = does not reproduce.
"""

from __future__ import annotations

import json
import sys


def _tup(x):
    if isinstance(x, list):
        return tuple(_tup(i) for i in x)
    return x


def replay(spec: dict) -> list:
    from . import pestenv

    pestenv.REAL = True
    t = spec["type"]
    if t == "family":
        from . import famcheck
        from .refpeg import Ref

        member = {"text": spec["grammar"], "rules": [_tup(r) for r in spec["rules"]], "features": set(spec["features"]), "tags": set(spec.get("tags", ["tg"]))}
        modes = famcheck.Modes(member["text"], spec["modes"])
        ref = Ref(member["rules"]) if spec.get("use_ref") else None
        c = famcheck.Case(spec["prop"], member, spec["rule"], len(spec["text"]), spec["k"], spec["text"], modes, ref).run()
        return famcheck.ORACLES[spec["prop"]](c)
    if t == "family-static":
        from . import famcheck

        modes = famcheck.Modes(spec["grammar"], ["I", "G", "IO", "GO"])
        out = [("build-exc", f"{m}: {e}") for m, e in modes.errors.items()]
        for m, p in modes.parsers.items():
            if m.startswith("I") and p.generate() != p.generate():
                out.append(("generate-nondeterministic", m))
        return out
    from . import replay_ext

    return replay_ext.replay(spec)


def main() -> int:
    spec = json.load(open(sys.argv[1]))
    fails = replay(spec)
    for f in fails:
        print("REPRODUCED", f[0], "::", str(f[1])[:500])
    if not fails:
        print("not reproduced")
    return 1 if fails else 0


if __name__ == "__main__":
    sys.exit(main())
