"""C13 stand-alone units: error_context() over fully symbolic (text, index)."""

from __future__ import annotations

import z3

from . import core, famcheck, famdriver, symx
from .symx import Engine, SymStr


@core.task_fn("c13_ec")
def run_ec(task: dict) -> dict:
    """error_context(text, p) for every text of length n and every 0 <= p <= n.

    variant 'nl'  : characters other than '\\n' that splitlines() honours are assumed away;
                    asserts (lineno, col, line) == reference of offset p.
    variant 'any' : no assumption; asserts it does not raise and returns sane values.
    """
    n, variant = task["n"], task["variant"]
    res = core.new_result(task["unit"])
    ec = famcheck.copy_a().modules["pest.exceptions"].error_context
    region = task.get("regions", {})
    for p in range(0, n + 1):
        key = f"n{n}p{p}"
        eng = Engine()
        holder = {}

        def check(text, p=p):
            try:
                line, lineno, col = ec(text, p)
            except (symx.Unsupported, symx.Inconclusive):
                raise
            except Exception as e:  # noqa: BLE001
                return [("raises", f"{type(e).__name__}: {e}")]
            out = []
            if variant == "nl":
                rl, rc, ls, le = famcheck._line_col_ref(text, p)
                want = text[ls:le].rstrip() if le > ls else ""
                if (lineno, col) != (rl, rc) or not famcheck._same_chars(line, want):
                    out.append(("linecol", f"p={p} shown={lineno}:{col} want={rl}:{rc} line[{ls}:{le}]"))
            else:
                if not (isinstance(lineno, int) and isinstance(col, int) and lineno >= 1 and col >= 1 and len(line) <= n):
                    out.append(("insane", f"p={p} -> {lineno}:{col} len(line)={len(line)}"))
                else:
                    # every line boundary str.splitlines() honours (the renderer's own convention)
                    rl, rc, want = _ref_splitlines(text, p)
                    if (lineno, col) != (rl, rc) or not famcheck._same_chars(line, want):
                        out.append(("linecol-any", f"p={p} shown={lineno}:{col} want={rl}:{rc} (splitlines convention)"))
            return out

        def fn(e):
            text = SymStr.fresh(e, n) if n else ""
            if variant == "nl" and n:
                for ch in text.ch:
                    for b in symx.LINE_BOUNDARIES:
                        if b != 0x0A:
                            e.assume(ch != b)
            holder["text"] = text
            return check(text)

        try:
            for pr in eng.explore(fn, max_paths=20000):
                if pr.status != "ok":
                    res["inconclusive"].append((key, f"{pr.status}: {pr.reason}"))
                    continue
                text = holder["text"]
                w = text.concrete(pr.model) if isinstance(text, SymStr) else text
                cf = check(w)
                if [f[0] for f in cf] != [f[0] for f in pr.value]:
                    res["harness_errors"].append(f"path/concrete mismatch {task['unit']} {key} {w!r}: {pr.value} vs {cf}")
                    continue
                res["validated"] += 1
                res["accepting"] += 1
                if len(res["samples"]) < 1 and n >= 2:
                    res["samples"].append({"fn": "error_context", "text": w, "index": p, "variant": variant})
                if pr.value:
                    vars_by_name = {symx.var_name(v): v for v in famcheck._vars_of(text)}
                    status, _o = core.classify_failure(pr.pc, region.get(key), vars_by_name)
                    res["failures"].append(
                        {
                            "key": key,
                            "kind": ",".join(f[0] for f in pr.value),
                            "detail": " | ".join(f[1] for f in pr.value),
                            "witness": (w, p),
                            "pc": z3.simplify(core.pc_formula(pr.pc)).sexpr(),
                            "vars": sorted(vars_by_name),
                            "status": status,
                            "finding": region.get(key, {}).get("finding") if status == "known" else None,
                            "replay": {"type": "c13_ec", "module": "vf.c13x", "text": w, "index": p, "variant": variant},
                        }
                    )
        except symx.Inconclusive as e:
            res["inconclusive"].append((key, str(e)))
        core.absorb_engine(res, eng)
    return res


def _ref_splitlines(text, p):
    """(line, col, stripped line) of offset p where lines are what str.splitlines() yields;
    an offset at the end of a text that ends with a line boundary is on a new, empty line."""
    lines = text.splitlines(keepends=True) if len(text) else []
    start = 0
    for i, ln in enumerate(lines):
        if p < start + len(ln):
            return i + 1, p - start + 1, ln.rstrip()
        start += len(ln)
    if lines:
        last = lines[-1]
        tail = last[len(last) - 1]
        is_break = (ord(tail) in symx.LINE_BOUNDARIES) if isinstance(tail, str) else symx.engine().branch(symx.in_set(tail.ch[0], symx.LINE_BOUNDARIES))
        if not is_break:
            start -= len(last)
            return len(lines), p - start + 1, last.rstrip()
    return len(lines) + 1, p - start + 1, ""


def _replay(spec):
    from . import pestenv

    cp = pestenv.load_copy()
    ec = cp.modules["pest.exceptions"].error_context
    text, p = spec["text"], spec["index"]
    try:
        line, lineno, col = ec(text, p)
    except Exception as e:  # noqa: BLE001
        return [("raises", f"{type(e).__name__}: {e}")]
    if spec["variant"] == "nl":
        rl, rc, ls, le = famcheck._line_col_ref(text, p)
        want = text[ls:le].rstrip() if le > ls else ""
        if (lineno, col, line) != (rl, rc, want):
            return [("linecol", f"shown={lineno}:{col} {line!r} want={rl}:{rc} {want!r}")]
        return []
    if not (lineno >= 1 and col >= 1 and len(line) <= len(text)):
        return [("insane", f"{lineno}:{col}")]
    rl, rc, want = _ref_splitlines(text, p)
    if (lineno, col, line) != (rl, rc, want):
        return [("linecol-any", f"shown={lineno}:{col} {line!r} want={rl}:{rc} {want!r}")]
    return []


from . import replay_ext  # noqa: E402

replay_ext.HANDLERS["c13_ec"] = _replay


@core.task_fn("c13_join")
def run_join(task: dict) -> dict:
    """join_with_limit / expected / expected_labels with a SYMBOLIC limit (and enumerated item lengths).

    The functions depend on their items only through lengths, so lengths are enumerated
    and the limit is a solver variable: never raises, returns a str (C13: the message always renders).
    """
    import itertools

    res = core.new_result(task["unit"])
    ex = famcheck.copy_a().modules["pest.exceptions"]
    jwl = ex.join_with_limit
    for lens in task["lens"]:
        items = ["abcdefgh"[:n] if n else "" for n in lens]
        for sep, last in ((", ", " or "), (", ", None), ("", "|")):
            key = f"{lens}/{sep!r}/{last!r}"
            eng = Engine()
            holder = {}

            def fn(e, items=items, sep=sep, last=last):
                lim = e.int_var("limit", -3, 60)
                holder["lim"] = lim
                try:
                    r = jwl(list(items), sep, last, symx.SymInt(lim))
                except (symx.Unsupported, symx.Inconclusive):
                    raise
                except Exception as exn:  # noqa: BLE001
                    return [("raises", f"{type(exn).__name__}: {exn}")], None
                out = []
                if not isinstance(r, str):
                    return [("type", f"returned {type(r).__name__}")], None
                # C13 asks that message building never raises and yields a str; that is all that is asserted.  The
                # docstring's stronger promises are not part of the property (and "will never exceed limit" does not
                # quite hold: when every item fits with the plain separator the result is joined with the longer
                # last_separator - ['', 'abcdefg'], ', ', ' or ', limit 10 -> 11 characters; an earlier version of this
                # unit asserted the promise and raised exactly that as a false alarm in the thorough tier).
                return out, r

            try:
                for pr in eng.explore(fn, max_paths=2000):
                    if pr.status != "ok":
                        res["inconclusive"].append((key, f"{pr.status}: {pr.reason}"))
                        continue
                    fails, r = pr.value
                    lim = pr.model["limit"]
                    try:
                        cr = jwl(list(items), sep, last, lim)
                    except Exception as exn:  # noqa: BLE001
                        cr = f"EXC {type(exn).__name__}"
                    if fails and fails[0][0] == "raises":
                        ok = isinstance(cr, str) and cr.startswith("EXC")
                    else:
                        ok = cr == r
                    if not ok:
                        res["harness_errors"].append(f"C13 join path/concrete mismatch {key} limit={lim}: {r!r} vs {cr!r}")
                        continue
                    res["validated"] += 1
                    res["accepting"] += 1
                    if len(res["samples"]) < 1 and len(items) >= 2:
                        res["samples"].append({"fn": "join_with_limit", "item_lengths": list(lens), "limit": lim, "result": cr})
                    if fails:
                        res["failures"].append(
                            {
                                "key": key,
                                "kind": ",".join(f[0] for f in fails),
                                "detail": " | ".join(f[1] for f in fails),
                                "witness": {"items": items, "sep": sep, "last": last, "limit": lim},
                                "pc": z3.simplify(core.pc_formula(pr.pc)).sexpr(),
                                "vars": ["limit"],
                                "status": "new",
                                "finding": None,
                                "replay": {"type": "c13_join", "module": "vf.c13x", "items": items, "sep": sep, "last": last, "limit": lim},
                            }
                        )
            except symx.Inconclusive as e:
                res["inconclusive"].append((key, str(e)))
            core.absorb_engine(res, eng)
    return res


def _replay_join(spec):
    from . import pestenv

    cp = pestenv.load_copy()
    jwl = cp.modules["pest.exceptions"].join_with_limit
    items, sep, last, lim = spec["items"], spec["sep"], spec["last"], spec["limit"]
    try:
        r = jwl(list(items), sep, last, lim)
    except Exception as e:  # noqa: BLE001
        return [("raises", f"{type(e).__name__}: {e}")]
    out = []
    if not isinstance(r, str):
        return [("type", type(r).__name__)]
    return out


replay_ext.HANDLERS["c13_join"] = _replay_join


def extra(tier, seed, known):
    nmax = 4 if tier == "quick" else 6
    regions = known.regions_for("C13")
    tasks = []
    for variant in ("nl", "any"):
        for n in range(0, nmax + 1 if variant == "nl" else min(nmax, 4) + 1):
            unit = f"error_context/{variant}/n{n}"
            tasks.append({"fn": "c13_ec", "unit": unit, "n": n, "variant": variant, "regions": {k[len(unit) + 1 :]: v for k, v in regions.items() if k.startswith(unit + "|")}})
    import itertools

    maxlen, maxitems = (4, 3) if tier == "quick" else (7, 4)
    lens = [()] + [t for k in range(1, maxitems + 1) for t in itertools.product(range(0, maxlen + 1, 1 if tier != "quick" or k < 3 else 2), repeat=k)]
    chunk = 12
    for i in range(0, len(lens), chunk):
        tasks.append({"fn": "c13_join", "unit": f"join_with_limit/{i // chunk:03d}", "lens": lens[i : i + chunk]})
    if tier == "thorough":
        from . import chx

        tasks += chx.tasks(["_error_context_matches_definition", "_error_context_never_raises", "_join_with_limit_renders"], 150)
    return tasks, {"error_context_units": len([t for t in tasks if t["fn"] == "c13_ec"]), "join_with_limit_units": len([t for t in tasks if t["fn"] == "c13_join"]), "crosshair_second_engine_units": len([t for t in tasks if t["fn"] == "crosshair"])}


famdriver.EXTRA["C13"] = extra
