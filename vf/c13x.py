"""C13 stand-alone units: error_context() over fully symbolic (text, index)."""

from __future__ import annotations

import z3

from . import core, famcheck, famdriver, symx
from .symx import Engine, SymStr


@core.task_fn("c13_ec")
def run_ec(task: dict) -> dict:
    """error_context(text, p) for every text of length n and every 0 <= p <= n.

    variant 'nl'  : characters other than '\\n' that splitlines() honours are assumed away;
                    asserts (lineno, col, line) == reference of offset p.
    variant 'any' : no assumption; asserts it does not raise and returns sane values.
    """
    n, variant = task["n"], task["variant"]
    res = core.new_result(task["unit"])
    ec = famcheck.copy_a().modules["pest.exceptions"].error_context
    region = task.get("regions", {})
    for p in range(0, n + 1):
        key = f"n{n}p{p}"
        eng = Engine()
        holder = {}

        def check(text, p=p):
            try:
                line, lineno, col = ec(text, p)
            except (symx.Unsupported, symx.Inconclusive):
                raise
            except Exception as e:  # noqa: BLE001
                return [("raises", f"{type(e).__name__}: {e}")]
            out = []
            if variant == "nl":
                rl, rc, ls, le = famcheck._line_col_ref(text, p)
                want = text[ls:le].rstrip() if le > ls else ""
                if (lineno, col) != (rl, rc) or not famcheck._same_chars(line, want):
                    out.append(("linecol", f"p={p} shown={lineno}:{col} want={rl}:{rc} line[{ls}:{le}]"))
            else:
                if not (isinstance(lineno, int) and isinstance(col, int) and lineno >= 1 and col >= 1 and len(line) <= n):
                    out.append(("insane", f"p={p} -> {lineno}:{col} len(line)={len(line)}"))
            return out

        def fn(e):
            text = SymStr.fresh(e, n) if n else ""
            if variant == "nl" and n:
                for ch in text.ch:
                    for b in symx.LINE_BOUNDARIES:
                        if b != 0x0A:
                            e.assume(ch != b)
            holder["text"] = text
            return check(text)

        try:
            for pr in eng.explore(fn, max_paths=20000):
                if pr.status != "ok":
                    res["inconclusive"].append((key, f"{pr.status}: {pr.reason}"))
                    continue
                text = holder["text"]
                w = text.concrete(pr.model) if isinstance(text, SymStr) else text
                cf = check(w)
                if [f[0] for f in cf] != [f[0] for f in pr.value]:
                    res["harness_errors"].append(f"path/concrete mismatch {task['unit']} {key} {w!r}: {pr.value} vs {cf}")
                    continue
                res["validated"] += 1
                res["accepting"] += 1
                if len(res["samples"]) < 1 and n >= 2:
                    res["samples"].append({"fn": "error_context", "text": w, "index": p, "variant": variant})
                if pr.value:
                    vars_by_name = {symx.var_name(v): v for v in famcheck._vars_of(text)}
                    status, _o = core.classify_failure(pr.pc, region.get(key), vars_by_name)
                    res["failures"].append(
                        {
                            "key": key,
                            "kind": ",".join(f[0] for f in pr.value),
                            "detail": " | ".join(f[1] for f in pr.value),
                            "witness": (w, p),
                            "pc": z3.simplify(core.pc_formula(pr.pc)).sexpr(),
                            "vars": sorted(vars_by_name),
                            "status": status,
                            "finding": region.get(key, {}).get("finding") if status == "known" else None,
                            "replay": {"type": "c13_ec", "module": "vf.c13x", "text": w, "index": p, "variant": variant},
                        }
                    )
        except symx.Inconclusive as e:
            res["inconclusive"].append((key, str(e)))
        core.absorb_engine(res, eng)
    return res


def _replay(spec):
    from . import pestenv

    cp = pestenv.load_copy()
    ec = cp.modules["pest.exceptions"].error_context
    text, p = spec["text"], spec["index"]
    try:
        line, lineno, col = ec(text, p)
    except Exception as e:  # noqa: BLE001
        return [("raises", f"{type(e).__name__}: {e}")]
    if spec["variant"] == "nl":
        rl, rc, ls, le = famcheck._line_col_ref(text, p)
        want = text[ls:le].rstrip() if le > ls else ""
        if (lineno, col, line) != (rl, rc, want):
            return [("linecol", f"shown={lineno}:{col} {line!r} want={rl}:{rc} {want!r}")]
        return []
    if not (lineno >= 1 and col >= 1 and len(line) <= len(text)):
        return [("insane", f"{lineno}:{col}")]
    return []


from . import replay_ext  # noqa: E402

replay_ext.HANDLERS["c13_ec"] = _replay


def extra(tier, seed, known):
    nmax = 4 if tier == "quick" else 6
    regions = known.regions_for("C13")
    tasks = []
    for variant in ("nl", "any"):
        for n in range(0, nmax + 1 if variant == "nl" else min(nmax, 4) + 1):
            unit = f"error_context/{variant}/n{n}"
            tasks.append({"fn": "c13_ec", "unit": unit, "n": n, "variant": variant, "regions": {k[len(unit) + 1 :]: v for k, v in regions.items() if k.startswith(unit + "|")}})
    return tasks, {"error_context_units": len(tasks)}


famdriver.EXTRA["C13"] = extra
