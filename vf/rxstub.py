"""Solver-level model of the `regex` C engine (the one environment model).

``install()`` replaces ``sys.modules['regex']`` by a shim module that behaves as
the real package for concrete subjects and runs a backtracking matcher over the
pattern's AST for SymStr subjects.  The AST is produced by the real package's
own pure-Python front end from the live pattern object, so whatever pattern and
flags the current /repo source builds is what gets modelled.
"""

from __future__ import annotations

import sys
import types
from typing import Any

import regex as _real
import regex._regex as _rx
import regex._regex_core as _rc

from . import symx
from .symx import SymStr, Unsupported, in_intervals

MAXCP = 0x10FFFF
_IGNORE = _real.I
_FULL = _real.F
_DOTALL = _real.S

# ---------------------------------------------------------------------------
# interval arithmetic on code point sets


def _norm(ivs):
    ivs = sorted(ivs)
    out: list[list[int]] = []
    for lo, hi in ivs:
        if lo > hi:
            continue
        if out and lo <= out[-1][1] + 1:
            out[-1][1] = max(out[-1][1], hi)
        else:
            out.append([lo, hi])
    return [(a, b) for a, b in out]


def _compl(ivs):
    out = []
    prev = 0
    for lo, hi in _norm(ivs):
        if lo > prev:
            out.append((prev, lo - 1))
        prev = hi + 1
    if prev <= MAXCP:
        out.append((prev, MAXCP))
    return out


def _from_points(pts):
    return _norm((p, p) for p in pts)


_PROP_CACHE: dict[int, list[tuple[int, int]]] = {}
_CASE_CACHE: dict[tuple[int, tuple], list[tuple[int, int]]] = {}


def _prop_intervals(value: int):
    r = _PROP_CACHE.get(value)
    if r is None:
        has = _rx.has_property_value
        out = []
        start = None
        for cp in range(MAXCP + 1):
            if has(value, cp):
                if start is None:
                    start = cp
            elif start is not None:
                out.append((start, cp - 1))
                start = None
        if start is not None:
            out.append((start, MAXCP))
        r = _PROP_CACHE[value] = out
    return r


def _case_expand(ivs, flags):
    key = (int(flags), tuple(ivs))
    r = _CASE_CACHE.get(key)
    if r is None:
        pts = set()
        gac = _rx.get_all_cases
        f = int(flags) & int(_IGNORE | _FULL)
        for lo, hi in ivs:
            for cp in range(lo, hi + 1):
                pts.update(gac(f, cp))
        r = _CASE_CACHE[key] = _norm(list(ivs) + _from_points(pts))
    return r


def node_intervals(node, flags_info) -> list[tuple[int, int]]:
    """Code points matched by a single-character AST node."""
    t = type(node).__name__
    if t == "Any":
        return [(0, 9), (11, MAXCP)]
    if t == "AnyAll":
        return [(0, MAXCP)]
    if t == "AnyU":
        return _compl(_from_points(symx.LINE_BOUNDARIES))
    cf = int(getattr(node, "case_flags", 0) or 0)
    icase = bool(cf & int(_IGNORE))
    if t == "Character":
        base = [(node.value, node.value)]
    elif t == "Range":
        base = [(node.lower, node.upper)]
    elif t == "Property":
        base = _prop_intervals(node.value)
    elif t in ("SetUnion", "SetInter", "SetDiff", "SetSymDiff"):
        parts = []
        for it in node.items:
            # items carry their own positivity; case handling is done on the union
            parts.append(_member_positive(it))
        if t == "SetUnion":
            base = _norm([iv for p in parts for iv in p])
        elif t == "SetInter":
            base = parts[0]
            for p in parts[1:]:
                base = _compl(_norm(_compl(base) + _compl(p)))
        elif t == "SetDiff":
            base = parts[0]
            for p in parts[1:]:
                base = _compl(_norm(_compl(base) + p))
        else:
            raise Unsupported("SetSymDiff")
    else:
        raise Unsupported(f"regex node {t} as character set")
    if icase:
        base = _case_expand(base, cf)
    if not getattr(node, "positive", True):
        base = _compl(base)
    return _norm(base)


def _member_positive(it):
    # a set member evaluated without the enclosing set's case flags
    t = type(it).__name__
    if t == "Character":
        base = [(it.value, it.value)]
    elif t == "Range":
        base = [(it.lower, it.upper)]
    elif t == "Property":
        base = _prop_intervals(it.value)
    elif t.startswith("Set"):
        return node_intervals(it, None)
    else:
        raise Unsupported(f"set member {t}")
    if not getattr(it, "positive", True):
        base = _compl(base)
    return _norm(base)


# ---------------------------------------------------------------------------
# full case folding (regex.FULLCASE | IGNORECASE: the default inside (?i:...) of a VERSION1 pattern)

_FOLD_TABLES = None
_FULLIGN = int(_rc.FULLIGNORECASE)
FOLD_REASON = "full case folding: a text character that expands on folding meets a (?i) literal of a VERSION1 pattern"


def _fold_tables():
    """(inv, multi): inv[f] = code points other than f whose full fold is the single code point f;
    multi[c] = the fold of c when it is longer than one code point.  Read off the real package's tables."""
    global _FOLD_TABLES
    if _FOLD_TABLES is None:
        flags = int(_rc.FULL_CASE_FOLDING)
        fc = _rx.fold_case
        inv: dict[int, set] = {}
        multi: dict[int, tuple] = {}
        for c in range(MAXCP + 1):
            if 0xD800 <= c <= 0xDFFF:
                continue
            f = fc(flags, chr(c))
            if len(f) == 1:
                if ord(f) != c:
                    inv.setdefault(ord(f), set()).add(c)
            else:
                multi[c] = tuple(map(ord, f))
        _FOLD_TABLES = (inv, multi)
    return _FOLD_TABLES


def _case_class(cp: int) -> set:
    return set(_rx.get_all_cases(int(_IGNORE), cp)) | {cp}


class _ICaseChar:
    """One literal character compared with simple case folding."""

    def __init__(self, value: int, flags: int):
        self.ivs = tuple(_case_expand([(value, value)], flags & ~int(_FULL)))


class _FoldChunk:
    """A literal chunk the real engine compares after FULL case folding of the text (STRING_FLD).

    Every text character is folded (to 1-3 code points) and the folded code points are compared,
    case-insensitively, with the folded literal; the match has to end on a character boundary.
    """

    def __init__(self, chars):
        inv, multi = _fold_tables()
        flags = int(_rc.FULL_CASE_FOLDING)
        self.chars = tuple(chars)
        self.lf = tuple(map(ord, _rx.fold_case(flags, "".join(map(chr, chars)))))
        changed = set().union(*inv.values()) if inv else set()
        self.single = []
        self.multi = []
        folds: dict[tuple, list] = {}
        for c, t in multi.items():
            folds.setdefault(t, []).append(c)
        for j, x in enumerate(self.lf):
            cls = _case_class(x)
            pts = {c for c in cls if c not in multi and c not in changed}
            for f in cls:
                pts |= inv.get(f, set())
            self.single.append(tuple(_from_points(pts)))
            opts = []
            for t, cs in folds.items():
                if len(t) <= len(self.lf) - j and all(t[k] in _case_class(self.lf[j + k]) for k in range(len(t))):
                    opts.append((len(t), tuple(_from_points(cs))))
            self.multi.append(opts)

    def relevant_points(self):
        pts = set(self.chars) | set(self.lf)
        for ivs in self.single:
            for lo, hi in ivs:
                pts.update(range(lo, min(hi, lo + 8) + 1))
        for opts in self.multi:
            for _ln, ivs in opts:
                for lo, hi in ivs:
                    pts.update(range(lo, min(hi, lo + 8) + 1))
        return pts


def _fold_plan(items):
    """Replace runs of full-case-insensitive Characters of a sequence by the chunks the real engine forms."""
    out, run = [], []

    def flush():
        if not run:
            return
        chars = [n.value for n in run]
        for lit in _rc.Sequence._fix_full_casefold(chars):
            if (int(lit.case_flags) & _FULLIGN) == _FULLIGN:
                out.append(_FoldChunk(lit.characters))
            else:
                out.extend(_ICaseChar(c, int(lit.case_flags)) for c in lit.characters)
        run.clear()

    for it in items:
        if type(it).__name__ == "Character" and it.positive and not it.zerowidth and (int(it.case_flags or 0) & _FULLIGN) == _FULLIGN:
            run.append(it)
        else:
            flush()
            out.append(it)
    flush()
    return out


_SINGLE = {"Character", "Range", "Property", "SetUnion", "SetInter", "SetDiff", "Any", "AnyAll", "AnyU"}


# ---------------------------------------------------------------------------
# compiled model


class Model:
    """Pattern AST prepared for symbolic matching."""

    def __init__(self, pattern: str, flags: int):
        info = _rc.Info(flags)
        src = _rc.Source(pattern)
        self.root = _rc._parse_pattern(src, info)
        if not src.at_end():
            raise Unsupported("pattern not fully parsed")
        self.flags = flags
        self.sets: dict[int, list[tuple[int, int]]] = {}
        self.plans: dict[int, list] = {}  # id(Sequence | Character) -> items with full-case runs replaced by chunks
        self.fold_chunks: list[_FoldChunk] = []
        self._prepare(self.root)

    def _prepare(self, node):
        t = type(node).__name__
        if isinstance(node, (_ICaseChar, _FoldChunk)):
            if isinstance(node, _FoldChunk):
                self.fold_chunks.append(node)
            return
        if t == "Character" and node.positive and not node.zerowidth and (int(node.case_flags or 0) & _FULLIGN) == _FULLIGN:
            plan = _fold_plan([node])
            if any(isinstance(x, _FoldChunk) for x in plan):
                self.plans[id(node)] = plan
                for x in plan:
                    self._prepare(x)
                return
        if t in _SINGLE:
            if getattr(node, "zerowidth", False):
                raise Unsupported("zero-width set")
            ivs = node_intervals(node, None)
            if t == "Any" and self.flags & int(_DOTALL):
                ivs = [(0, MAXCP)]
            self.sets[id(node)] = tuple(ivs)
        elif t == "Sequence":
            plan = _fold_plan(node.items)
            if any(isinstance(x, _FoldChunk) for x in plan):
                self.plans[id(node)] = plan
                for it in plan:
                    self._prepare(it)
            else:
                for it in node.items:
                    self._prepare(it)
        elif t == "Branch":
            for b in node.branches:
                self._prepare(b)
        elif t in ("GreedyRepeat", "LazyRepeat"):
            self._prepare(node.subpattern)
        elif t == "LookAround":
            if node.behind:
                raise Unsupported("look-behind")
            self._prepare(node.subpattern)
        elif t in ("Group", "Atomic"):
            self._prepare(node.subpattern)
        elif t == "CallGroup":
            if str(node.group) != "0":
                raise Unsupported("call of a named/numbered group")
        elif t in ("StartOfString", "EndOfString", "EndOfStringLine"):
            pass
        elif t == "String":
            pass
        else:
            raise Unsupported(f"regex node {t}")

    # -- matching ------------------------------------------------------------
    def match_at(self, s: SymStr, pos: int, endpos: int, groups: dict | None = None):
        """Return end offset of the match anchored at pos, or None.

        When `groups` is given it is filled with {group number: (start, end)} of the
        capture groups that took part in the successful match.
        """
        eng = symx.engine()
        ch = s.ch
        cur: dict = {}

        def m(node, i, k):
            t = type(node).__name__
            if t == "_ICaseChar":
                if i >= endpos:
                    return None
                return k(i + 1) if eng.branch(in_intervals(ch[i], node.ivs)) else None
            if t == "_FoldChunk":
                lf_len = len(node.lf)

                def step(i, j):
                    if j == lf_len:
                        return k(i)
                    if i >= endpos:
                        return None
                    c = ch[i]
                    if node.single[j] and eng.branch(in_intervals(c, node.single[j])):
                        return step(i + 1, j + 1)
                    for _ln, ivs in node.multi[j]:
                        if eng.branch(in_intervals(c, ivs)):
                            # The real engine's treatment of a character that expands on folding depends on
                            # where the literal sits in the compiled program (required-string and start
                            # checks); it is not modelled: the path gets no verdict (its witness is still run).
                            raise Unsupported(FOLD_REASON)
                    return None

                return step(i, 0)
            if id(node) in self.plans and t == "Character":
                items = self.plans[id(node)]

                def seq1(j, i):
                    if j == len(items):
                        return k(i)
                    return m(items[j], i, lambda i2: seq1(j + 1, i2))

                return seq1(0, i)
            if t in _SINGLE:
                if i >= endpos:
                    return None
                if eng.branch(in_intervals(ch[i], self.sets[id(node)])):
                    return k(i + 1)
                return None
            if t == "Sequence":
                items = self.plans.get(id(node)) or node.items

                def seq(j, i):
                    if j == len(items):
                        return k(i)
                    return m(items[j], i, lambda i2: seq(j + 1, i2))

                return seq(0, i)
            if t == "Branch":
                for b in node.branches:
                    r = m(b, i, k)
                    if r is not None:
                        return r
                return None
            if t == "GreedyRepeat":
                lo, hi = node.min_count, node.max_count
                sub = node.subpattern

                def rep(count, i):
                    if hi is None or count < hi:

                        def after(i2):
                            if i2 == i and count >= lo:
                                return None  # zero-width iteration: stop
                            return rep(count + 1, i2)

                        r = m(sub, i, after)
                        if r is not None:
                            return r
                    if count >= lo:
                        return k(i)
                    return None

                return rep(0, i)
            if t == "LazyRepeat":
                lo, hi = node.min_count, node.max_count
                sub = node.subpattern

                def lrep(count, i):
                    if count >= lo:
                        r = k(i)
                        if r is not None:
                            return r
                    if hi is None or count < hi:
                        return m(sub, i, lambda i2: None if i2 == i and count >= lo else lrep(count + 1, i2))
                    return None

                return lrep(0, i)
            if t == "LookAround":
                r = m(node.subpattern, i, lambda i2: i2)
                ok = r is not None
                if ok == bool(node.positive):
                    return k(i)
                return None
            if t == "Group":
                g = getattr(node, "group", None)
                if g is None:
                    return m(node.subpattern, i, k)

                def after_group(i2, g=g, i=i):
                    prev = cur.get(g)
                    cur[g] = (i, i2)
                    r = k(i2)
                    if r is None:
                        if prev is None:
                            cur.pop(g, None)
                        else:
                            cur[g] = prev
                    return r

                return m(node.subpattern, i, after_group)
            if t == "Atomic":
                r = m(node.subpattern, i, lambda i2: i2)
                return None if r is None else k(r)
            if t == "CallGroup":
                return m(self.root, i, k)
            if t == "StartOfString":
                return k(i) if i == 0 else None
            if t == "EndOfString":
                return k(i) if i == len(ch) else None
            if t == "String":
                chars = node.characters
                cf = int(getattr(node, "case_flags", 0) or 0)
                for j, v in enumerate(chars):
                    if i + j >= endpos:
                        return None
                    ivs = [(v, v)]
                    if cf & int(_IGNORE):
                        ivs = _case_expand(ivs, cf)
                    if not eng.branch(in_intervals(ch[i + j], tuple(ivs))):
                        return None
                return k(i + len(chars))
            raise Unsupported(f"regex node {t}")

        def done(i):
            if groups is not None:
                groups.clear()
                groups.update(cur)
            return i

        return m(self.root, pos, done)


class MatchProxy:
    __slots__ = ("s", "_start", "_end", "re", "groups")

    def __init__(self, s, start, end, rx, groups=None):
        self.s, self._start, self._end, self.re = s, start, end, rx
        self.groups = groups or {}

    def _span(self, g):
        if g == 0:
            return (self._start, self._end)
        if isinstance(g, int):
            return self.groups.get(g, (-1, -1))
        raise Unsupported("named capture groups")

    def start(self, g=0):
        return self._span(g)[0]

    def end(self, g=0):
        return self._span(g)[1]

    def span(self, g=0):
        return self._span(g)

    def group(self, g=0):
        a, b = self._span(g)
        return None if a < 0 else self.s[a:b]

    def __getitem__(self, g):
        return self.group(g)

    def __bool__(self):
        return True


class SymLiteral:
    """re.escape() of a symbolic string: a literal pattern that is never matched by C10/C11."""

    def __init__(self, s):
        self.s = s

    def __format__(self, spec):
        return symx.OPAQUE_MARK

    def __str__(self):
        return symx.OPAQUE_MARK


class OpaquePattern:
    """A pattern built from symbolic grammar text; only its existence is modelled."""

    def __init__(self, pattern, flags):
        self.pattern, self.flags = pattern, flags

    def __getattr__(self, name):
        raise Unsupported(f"regex built from symbolic grammar text: .{name}")


_MODELS: dict[tuple[str, int], Model] = {}
STATS = {"sym_matches": 0, "patterns": set()}


class PatternProxy:
    """Stands for a compiled regex.Pattern."""

    def __init__(self, real):
        self._real = real
        self.pattern = real.pattern
        self.flags = real.flags

    def _model(self) -> Model:
        key = (self._real.pattern, self._real.flags)
        mdl = _MODELS.get(key)
        if mdl is None:
            mdl = _MODELS[key] = Model(*key)
            if mdl.fold_chunks:
                # full case folding is the one part of the model that paraphrases C code rather than tables:
                # compare with the real engine before the first use of every such pattern
                try:
                    validate(key[0], key[1], maxlen=3, budget=4000)
                except AssertionError as e:
                    mdl.invalid = str(e)
        if getattr(mdl, "invalid", None):
            raise Unsupported(f"regex model disagrees with the real engine: {mdl.invalid[:200]}")
        STATS["patterns"].add(key)
        return mdl

    def match(self, s, pos=0, endpos=None):
        if isinstance(s, str):
            return self._real.match(s, pos) if endpos is None else self._real.match(s, pos, endpos)
        if not isinstance(s, SymStr):
            raise Unsupported(f"regex match on {type(s).__name__}")
        STATS["sym_matches"] += 1
        n = len(s)
        endpos = n if endpos is None else min(endpos, n)
        if pos > n:
            return None
        groups: dict = {}
        e = self._model().match_at(s, pos, endpos, groups)
        return None if e is None else MatchProxy(s, pos, e, self, groups)

    def fullmatch(self, s, pos=0, endpos=None):
        if isinstance(s, str):
            return self._real.fullmatch(s, pos) if endpos is None else self._real.fullmatch(s, pos, endpos)
        raise Unsupported("fullmatch on SymStr")

    def search(self, s, pos=0, endpos=None):
        if isinstance(s, str):
            return self._real.search(s, pos) if endpos is None else self._real.search(s, pos, endpos)
        if not isinstance(s, SymStr):
            raise Unsupported(f"regex search on {type(s).__name__}")
        STATS["sym_matches"] += 1
        n = len(s)
        endpos = n if endpos is None else min(endpos, n)
        mdl = self._model()
        for p in range(pos, endpos + 1):
            groups: dict = {}
            e = mdl.match_at(s, p, endpos, groups)
            if e is not None:
                return MatchProxy(s, p, e, self, groups)
        return None

    def __getattr__(self, name):
        attr = getattr(self._real, name)
        if callable(attr):

            def guarded(*a, **k):
                for x in list(a) + list(k.values()):
                    if isinstance(x, SymStr):
                        raise Unsupported(f"regex Pattern.{name} on SymStr")
                return attr(*a, **k)

            return guarded
        return attr

    def __repr__(self):
        return f"PatternProxy({self._real!r})"


def install() -> types.ModuleType:
    """Install the shim as sys.modules['regex'] (idempotent)."""
    cur = sys.modules.get("regex")
    if getattr(cur, "__symx_shim__", False):
        return cur
    shim = types.ModuleType("regex")
    shim.__dict__.update({k: v for k, v in _real.__dict__.items() if not k.startswith("__")})
    shim.__symx_shim__ = True
    shim.__real__ = _real
    shim.__path__ = getattr(_real, "__path__", [])
    shim.__file__ = getattr(_real, "__file__", None)

    def compile(pattern, flags=0, **kw):  # noqa: A001
        if isinstance(pattern, PatternProxy):
            return pattern
        if isinstance(pattern, SymLiteral) or (isinstance(pattern, str) and symx.OPAQUE_MARK in pattern):
            return OpaquePattern(pattern, flags)
        return PatternProxy(_real.compile(pattern, flags, **kw))

    def escape(pattern, *a, **kw):
        if isinstance(pattern, SymStr):
            return SymLiteral(pattern)
        return _real.escape(pattern, *a, **kw)

    shim.compile = compile
    shim.escape = escape
    shim.Pattern = PatternProxy
    sys.modules["regex"] = shim
    return shim


def uninstall() -> None:
    sys.modules["regex"] = _real


# ---------------------------------------------------------------------------
# validation against the real engine (Serval-style), cached per pattern

_ALL = None
_VALIDATED: dict[tuple[str, int], str] = {}


def _all_cps() -> str:
    global _ALL
    if _ALL is None:
        _ALL = "".join(map(chr, range(MAXCP + 1)))
    return _ALL


def single_char_intervals(mdl: Model):
    """If the pattern is exactly one single-character node, return its set."""
    node = mdl.root
    while type(node).__name__ in ("Sequence", "Group"):
        if type(node).__name__ == "Group":
            node = node.subpattern
            continue
        if len(node.items) != 1:
            return None
        node = node.items[0]
    if type(node).__name__ in _SINGLE:
        return mdl.sets.get(id(node))
    return None


def _concrete_match_end(mdl: Model, text: str, pos: int):
    """Run the symbolic matcher on a concrete string (no engine needed)."""
    s = SymStr(tuple(map(ord, text)))

    class _E:
        @staticmethod
        def branch(c):
            if isinstance(c, bool):
                return c
            raise AssertionError("symbolic condition on concrete text")

    prev = symx.CUR
    symx.CUR = _E()  # type: ignore[assignment]
    try:
        return mdl.match_at(s, pos, len(text))
    finally:
        symx.CUR = prev


def validate(pattern: str, flags: int, *, ascii_only: bool = False, maxlen: int = 3, budget: int = 6000) -> str:
    """Compare the model of one pattern with the real engine.

    Single-character patterns: all 1 114 112 code points.  Composite patterns:
    every string of length <= maxlen over the pattern's boundary alphabet
    (capped at `budget` strings, enumeration order deterministic).
    Returns a short description; raises AssertionError on a mismatch.
    """
    key = (pattern, flags, ascii_only)
    if key in _VALIDATED:
        return _VALIDATED[key]
    real = _real.compile(pattern, flags)
    mdl = _MODELS.get((pattern, flags)) or Model(pattern, flags)
    _MODELS[(pattern, flags)] = mdl
    ivs = single_char_intervals(mdl)
    if ivs is not None:
        plus = _real.compile(f"(?:{pattern})+", flags)
        hi = 0x7F if ascii_only else MAXCP
        got = [(m.start(), m.end() - 1) for m in plus.finditer(_all_cps()[: hi + 1])]
        want = [(a, min(b, hi)) for a, b in ivs if a <= hi]
        if _norm(got) != _norm(want):
            diff = sorted(set(_pts(got, 50000)) ^ set(_pts(want, 50000)))[:5]
            raise AssertionError(f"regex stub set mismatch for {pattern!r}/{flags}: e.g. {[hex(x) for x in diff]}")
        desc = f"set:{hi + 1}cps"
    else:
        alpha = _boundary_alphabet(mdl, ascii_only)
        n = 0
        from itertools import product

        done = False
        for L in range(0, maxlen + 1):
            for tup in product(alpha, repeat=L):
                text = "".join(map(chr, tup))
                for pos in range(0, min(L, 1) + 1):
                    r = real.match(text, pos)
                    want = None if r is None else r.end()
                    try:
                        got = _concrete_match_end(mdl, text, pos)
                    except Unsupported:
                        continue  # paths the model declines (expanding characters under full case folding)
                    if want != got:
                        raise AssertionError(
                            f"regex stub mismatch for {pattern!r}/{flags} on {text!r}@{pos}: real={want} stub={got}"
                        )
                n += 1
                if n >= budget:
                    done = True
                    break
            if done:
                break
        desc = f"diff:{n}strings/alpha{len(alpha)}"
    _VALIDATED[key] = desc
    return desc


def _pts(ivs, cap):
    out = []
    for a, b in ivs:
        for x in range(a, b + 1):
            out.append(x)
            if len(out) >= cap:
                return out
    return out


def _boundary_alphabet(mdl: Model, ascii_only: bool):
    pts = {0x0A, 0x20}
    for ivs in mdl.sets.values():
        for lo, hi in ivs[:6] + ivs[-2:]:
            for p in (lo - 1, lo, hi, hi + 1):
                if 0 <= p <= MAXCP:
                    pts.add(p)

    def walk(node):
        t = type(node).__name__
        if t == "String":
            pts.update(node.characters)
        for attr in ("items", "branches"):
            for it in getattr(node, attr, ()) or ():
                if isinstance(it, _rc.RegexBase):
                    walk(it)
        sub = getattr(node, "subpattern", None)
        if isinstance(sub, _rc.RegexBase):
            walk(sub)

    walk(mdl.root)
    for chunk in mdl.fold_chunks:
        pts |= chunk.relevant_points()
        pts |= {0xDF, 0x17F, 0x212A, 0x130, 0x131, 0x49, 0x69, 0xFB06}
    if ascii_only:
        pts = {p for p in pts if p <= 0x7F}
    else:
        pts.add(MAXCP)
    out = sorted(pts)
    # keep the alphabet small enough for exhaustive length-3 enumeration
    if len(out) > 18 and not mdl.fold_chunks:
        step = len(out) / 18.0
        out = sorted({out[int(i * step)] for i in range(18)} | {0x0A})
    return out
