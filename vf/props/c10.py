"""C10 / C11 - the grammar front end.

C10: Parser.from_grammar accepts exactly the texts pest's meta-grammar accepts and
     builds the structure the text denotes (reference: vf/metaref.py).
C11: for every text, a Parser or a renderable PestGrammarError pointing into the text.

Symbolic: a window of w characters (every code point) in a concrete template, at
every offset of small grammars, at the end of every truncation.
"""

from __future__ import annotations

import time

import z3

from .. import core, famcheck, frontend, metaref, pestenv, replay_ext, symx
from ..symx import Engine, SymStr

# (name, prefix, suffix)   the window sits between prefix and suffix
SLOTS = [
    ("body", "r = { ", " }"),
    ("body-bare", "r={", "}"),
    ("infix", 'r = { "a" ', ' "b" }'),
    ("infix-id", "r = { a ", " b }"),
    ("postfix", "r = { a", " }"),
    ("postfix2", "r = { a*", " }"),
    ("postfix-grp", 'r = { ("a" | b)', " ~ c }"),
    ("prefix", "r = { ", "a }"),
    ("prefix2", "r = { !", "a }"),
    ("modifier", "r = ", "{ a }"),
    ("assign", "r ", " { a }"),
    ("name-tail", "r", " = { a }"),
    ("string", 'r = { "', '" }'),
    ("string-esc", 'r = { "a\\', 'b" }'),
    ("string-tail", 'r = { "a', " }"),
    ("u-esc-open", 'r = { "\\u{', '1}" }'),
    ("u-esc-all", 'r = { "\\u{', '}" }'),
    ("u-esc-close", 'r = { "\\u{41', '" }'),
    ("x-esc", 'r = { "\\x', '" }'),
    ("cistring", "r = { ^", 'a" }'),
    ("char", "r = { '", "'..'z' }"),
    ("char-esc", "r = { '\\", "'..'z' }"),
    ("range-op", "r = { 'a'", "'z' }"),
    ("range-op1", "r = { 'a'.", "'z' }"),
    ("range-hi", "r = { 'a'..", " }"),
    ("peek-open", "r = { PEEK", "1..2] }"),
    ("peek-lo", "r = { PEEK[", "..] }"),
    ("peek-mid", "r = { PEEK[1", "2] }"),
    ("peek-hi", "r = { PEEK[..", "] }"),
    ("rep-open", "r = { a{", "} }"),
    ("rep-mid", "r = { a{1", "} }"),
    ("rep-mid2", "r = { a{1,", "} }"),
    ("rep-close", "r = { a{1,2", " }"),
    ("block-comment-inner", "/* a", " b */ r = { a }"),  # only nested block comments have structure inside a block comment
    ("block-comment-inner2", "r = { a /*", "*/ ~ b }"),
    ("rep-u32-last", "r = { a{429496729", "} }"),  # pest: repeat counts are u32 ("number cannot overflow u32")
    ("rep-u32-extra", "r = { a{4294967295", "} }"),
    ("rep-u32-max", "r = { a{,429496729", "} }"),
    ("rep-u32-minmax", "r = { a{1,429496729", "} }"),
    ("after-rule", "r = { a }", ""),
    ("between-rules", "r = { a }", "s = { b }"),
    ("leading", "", "r = { a }"),
    ("comment-open", "r = { a /", " c */ }"),
    ("comment-close", "r = { a /* c ", "/ }"),
    ("comment-line", "r = { a /", "/ c\n }"),
    ("tag", "r = { #t", "= a }"),
    ("tag-open", "r = { ", "tg = a }"),
    ("tag-eq", "r = { #tg ", " a }"),
    ("doc", "//", " doc\nr = { a }"),
    ("doc-end", "//! d", "\nr = { a }"),
    ("doc-end-crlf", "//! d", "\n/// e\r\nr = { a }"),
    ("ruledoc-end", "/// d", "\nr = { a }"),
    ("ruledoc-eof", "r = { a }\n/// d", ""),
    ("doc-lead", "//!", "d\nr = { a }"),
    ("ws-eol", "r = { a ", "\n }"),
    ("linecomment-end", "r = { a // c", "\n }"),
    ("doc-rule", "r = { a }\n//", " doc\ns = { b }"),
    ("kw-pop", "r = { PO", " }"),
    ("kw-pop-tail", "r = { POP", " }"),
    ("kw-peek-tail", "r = { PEEK", " }"),
    ("kw-push", "r = { PUS", '("a") }'),
    ("kw-push-tail", "r = { PUSH", '("a") }'),
    ("kw-pushlit", "r = { PUSH_LITERA", '("a") }'),
    ("kw-drop-tail", "r = { DROP", " }"),
    ("paren-open", "r = { ", "a | b) }"),
    ("paren-close", "r = { (a | b", " }"),
    ("push-arg", "r = { PUSH(", ") }"),
    ("pushlit-arg", "r = { PUSH_LITERAL(", ") }"),
    ("choice-lead", "r = { ", ' "a" | "b" }'),
    ("choice-lead-nested", "r = { (", ' "a" | "b") }'),
    ("choice-lead-push", "r = { PUSH(", ' "a" | "b") }'),
    ("skip-idiom-ref", "a = { (!", ' ~ ANY)* }\nb = { "x" }'),
    ("skip-idiom-choice", 'a = { (!("x" | ', ') ~ ANY)* }\nb = { "y" }'),
]

SMALL = [
    'r = { "a" ~ b* | !c }\nb = _{ \'0\'..\'9\' }\nc = @{ ^"x"+ }',
    "//! doc\n/// rd\nr = ${ (a | b){2,3} ~ PUSH(c)? ~ PEEK[0..1] }",
    'r = { #tg = a ~ PUSH_LITERAL("\\n") ~ POP /* c */ } // e',
]


def lineno_col_ok(text, lineno, col, cur_len) -> list:
    """(lineno, col) must denote an offset inside the text (lines as str.splitlines sees them)."""
    out = []
    lines = text.splitlines(keepends=True) if len(text) else []
    ends_open = bool(lines) and not _ends_with_break(lines[-1])
    nlines = len(lines) if ends_open else len(lines) + 1  # a trailing break opens an empty last line
    if not (isinstance(lineno, int) and 1 <= lineno <= nlines):
        out.append(("error-line", f"line {lineno} does not exist (text has {nlines} line(s))"))
        return out
    length = len(lines[lineno - 1]) if lineno <= len(lines) else 0
    if not (isinstance(col, int) and 0 <= col <= length):
        out.append(("error-col", f"column {col} outside line {lineno} of length {length}"))
    return out


def _ends_with_break(line) -> bool:
    if len(line) == 0:
        return False
    last = line[len(line) - 1]
    if isinstance(last, str):
        return ord(last) in symx.LINE_BOUNDARIES
    return symx.engine().branch(symx.in_set(last.ch[0], symx.LINE_BOUNDARIES))


def check_total(cp, text, optimized: bool) -> tuple[str, list]:
    """C11 for one text: Parser | PestGrammarError whose str() renders and points into the text."""
    got = frontend.load(cp, text, optimized=optimized)
    if got[0] == "OK":
        return "parser", []
    if got[0] == "EXC":
        return "EXC", [("exception", f"{type(got[1]).__name__}: {str(got[1])[:120]}")]
    e = got[1]
    fails = []
    try:
        msg = str(e)
        if not isinstance(msg, str) or not msg:
            fails.append(("render", "str(error) is empty / not a str"))
    except (symx.Unsupported, symx.Inconclusive):
        raise
    except Exception as ex:  # noqa: BLE001
        if frontend.proxy_leak(ex) and not isinstance(text, str):
            raise symx.Unsupported(f"proxy leak in rendering: {ex}") from ex
        return "error", [("render", f"str(error) raised {type(ex).__name__}: {str(ex)[:100]}")]
    tok = getattr(e, "token", None)
    if tok is not None:
        try:
            lineno, col, _p, cur, _n = e._error_context(tok.grammar, tok.start)
            fails += lineno_col_ok(text, lineno, col, len(cur))
        except (symx.Unsupported, symx.Inconclusive):
            raise
        except Exception as ex:  # noqa: BLE001
            fails.append(("render", f"_error_context raised {type(ex).__name__}"))
    return "error", fails


def evaluate(prop: str, cps, text):
    """All assertions of prop for one text -> (label, fails)."""
    if prop == "C10":
        return frontend.compare(cps["plain"], text)
    label1, f1 = check_total(cps["plain"], text, False)
    label2, f2 = check_total(cps["opt"], text, True)
    fails = [(k, "optimizer=None: " + d) for k, d in f1] + [(k + "-opt", "default optimizer: " + d) for k, d in f2]
    if (label1 == "parser") != (label2 == "parser") and label2 != "EXC" and label1 != "EXC":
        fails.append(("optimizer-changes-acceptance", f"optimizer=None: {label1}, default optimizer: {label2}"))
    return f"{label1}/{label2}", fails


_CPS = None


def _patch_unescape(cp):
    """int()/chr()/HEX_DIGITS of the unescape module accept symbolic values (environment model)."""
    un = cp.modules["pest.grammar.unescape"]
    if not pestenv.REAL:
        un.int = symx.sym_int
        un.chr = symx.sym_chr
        un.ord = symx.sym_ord
        if isinstance(getattr(un, "HEX_DIGITS", None), frozenset):
            un.HEX_DIGITS = pestenv.SymAwareSet(un.HEX_DIGITS)
    return cp


def copies():
    global _CPS
    if _CPS is None:
        _CPS = {"plain": _patch_unescape(famcheck.copy_a()), "opt": _patch_unescape(pestenv.load_copy())}
    return _CPS


@core.task_fn("c10")
def run(task: dict) -> dict:
    prop = task["prop"]
    res = core.new_result(task["unit"])
    cps = copies()
    regions = task.get("regions", {})
    t_end = time.time() + task.get("budget_s", 120)
    for name, parts in task["texts"]:
        key = name
        eng = Engine()
        holder = {}

        def fn(e, parts=parts):
            text = SymStr.template(e, parts) if any(isinstance(p, int) for p in parts) else "".join(parts)
            if task.get("split") and isinstance(text, SymStr):
                first = next(c for c in text.ch if not isinstance(c, int))
                e.assume(first >= task["split"][0])
                e.assume(first <= task["split"][1])
            holder["text"] = text
            return evaluate(prop, cps, text)

        try:
            for pr in eng.explore(fn, max_paths=task.get("max_paths", 4000), deadline=t_end):
                if pr.status != "ok":
                    res["inconclusive"].append((key, f"{pr.status}: {(pr.reason or '')[:120]}"))
                    continue
                text = holder["text"]
                w = text.concrete(pr.model) if isinstance(text, SymStr) else text
                label, fails = pr.value
                clabel, cfails = evaluate(prop, cps, w)
                if clabel != label or [f[0] for f in cfails] != [f[0] for f in fails]:
                    res["harness_errors"].append(f"{prop} path/concrete mismatch {key} {w!r}: {label} {fails} vs {clabel} {cfails}"[:900])
                    continue
                res["validated"] += 1
                res["accepting" if label.startswith(("both-accept", "parser")) else "rejecting"] += 1
                if len(res["samples"]) < 1 and isinstance(text, SymStr):
                    res["samples"].append({"grammar_text": w, "outcome": label})
                if fails:
                    vars_by_name = {symx.var_name(v): v for v in famcheck._vars_of(text)}
                    status, other = core.classify_failure(pr.pc, regions.get(key), vars_by_name)
                    need = (regions.get(key) or {}).get("detail_contains")
                    if status == "known" and need and not all(need in f[1] for f in fails):
                        status = "new"  # the listed input now fails in a different way
                    wit = w
                    if status == "new" and other and isinstance(text, SymStr):
                        wit = "".join(chr(c) if isinstance(c, int) else chr(other.get(symx.var_name(c), pr.model[symx.var_name(c)])) for c in text.ch)
                    res["failures"].append(
                        {
                            "key": key,
                            "kind": ",".join(sorted({f[0] for f in fails})),
                            "detail": " | ".join(f[1] for f in fails)[:500],
                            "witness": wit,
                            "pc": z3.simplify(core.pc_formula(pr.pc)).sexpr(),
                            "vars": sorted(vars_by_name),
                            "status": status,
                            "finding": regions.get(key, {}).get("finding") if status == "known" else None,
                            "replay": {"type": "c10", "module": "vf.props.c10", "prop": prop, "text": wit},
                        }
                    )
        except symx.Inconclusive as e:
            res["inconclusive"].append((key, str(e)[:200]))
        core.absorb_engine(res, eng)
    return res


def _replay(spec):
    pestenv.REAL = True
    global _CPS
    _CPS = None
    famcheck._COPY_A = None
    _label, fails = evaluate(spec["prop"], copies(), spec["text"])
    return fails


replay_ext.HANDLERS["c10"] = _replay


SIZE_SPECIALS = {
    "count-5000-digits": 'r = { "a"{' + "9" * 5000 + "} }",
    "count-22-digits": 'r = { "a"{10000000000000000000000} }',
    "count-22-digits-min": 'r = { "a"{10000000000000000000000,} }',
    "count-22-digits-max": 'r = { "a"{,10000000000000000000000} }',
    "count-100000": 'r = { "a"{100000} }',
    "slice-5000-digits": "r = { PEEK[" + "9" * 5000 + "..] }",
    "parens-3000": "r = { " + "(" * 3000 + '"a"' + ")" * 3000 + " }",
    "not-3000": "r = { " + "!" * 3000 + '"a" }',
    "push-1500": "r = { " + "PUSH(" * 1500 + '"a"' + ")" * 1500 + " }",
    "sequence-5000-terms": "r = { " + " ~ ".join(['"a"'] * 5000) + " }",
    "choice-5000-terms": "r = { " + " | ".join(['"a"'] * 5000) + " }",
    "postfix-5000": 'r = { "a"' + "?" * 5000 + " }",
    "rules-3000": "\n".join(f"r{i} = {{ r{i + 1} }}" for i in range(3000)) + '\nr3000 = { "a" }',
    "string-100000": 'r = { "' + "a" * 100000 + '" }',
    "comment-100000": "/*" + "x" * 100000 + '*/ r = { "a" }',
    "nested-comment-3000": "/*" * 3000 + "*/" * 3000 + ' r = { "a" }',
}


def texts_for(prop: str, tier: str, seed: int):
    """[(name, parts)]"""
    out = []
    W2_QUICK = {"block-comment-inner", "block-comment-inner2", "postfix", "infix", "range-op", "kw-pop-tail", "modifier", "rep-open", "string-esc", "peek-lo", "tag-eq", "u-esc-all", "x-esc", "u-esc-open"}
    for name, pre, suf in SLOTS:
        wmax = 2 if tier == "thorough" or name in W2_QUICK else 1
        for w in range(0, wmax + 1):
            out.append((f"slot/{name}/w{w}", [pre, w, suf] if w else [pre + suf]))
    if tier == "thorough":
        for name in ("body", "postfix", "infix", "prefix", "string", "rep-open", "after-rule", "kw-pop-tail"):
            pre, suf = next((p, s) for n, p, s in SLOTS if n == name)
            out.append((f"slot/{name}/w3", [pre, 3, suf]))
    # single-character mutation (replace) and insertion at every offset of small grammars
    for gi, g in enumerate(SMALL):
        step = 1 if tier == "thorough" else 3
        for i in range(0, len(g) + 1, step):
            if i < len(g):
                out.append((f"small{gi}/replace@{i}", [g[:i], 1, g[i + 1 :]]))
            out.append((f"small{gi}/insert@{i}", [g[:i], 1, g[i:]]))
    # printed grammars of the generated family F1 (+ stack family): concrete text, and one
    # symbolic character replaced / inserted at a seeded offset of every k-th grammar
    import random as _random

    from .. import family as _family

    fam = _family.family(["none", "both", "cmn", "wsm"]) + _family.stack_family()
    rnd = _random.Random(seed)
    seen_txt = set()
    k = 0
    for m in fam:
        t = m["text"]
        if t in seen_txt:
            continue
        seen_txt.add(t)
        k += 1
        if prop == "C10" and (tier == "thorough" or k % 3 == 0):
            out.append((f"fam/{m['id']}", [t]))
        if k % (40 if tier == "quick" else 8) == 0:
            off = rnd.randrange(len(t))
            out.append((f"fam/{m['id']}/replace@{off}", [t[:off], 1, t[off + 1 :]]))
            out.append((f"fam/{m['id']}/insert@{off}", [t[:off], 1, t[off:]]))
    if prop == "C11":
        # (the u32-edge slots stay with C10: with the default optimizer a{4294967295} makes the unroll pass build
        #  4.3e9 copies - a worker dies of memory exhaustion; resource use is outside the claim, DESIGN.md section 7)
        out = [(n, p) for n, p in out if "rep-u32" not in n]
        # every truncation, bare and followed by one arbitrary character
        srcs = [pre + "ab" + suf for _n, pre, suf in SLOTS[:20]] + SMALL
        seen = set()
        for si, g in enumerate(srcs):
            for i in range(0, len(g) + 1):
                t = g[:i]
                if t in seen:
                    continue
                seen.add(t)
                out.append((f"trunc{si}@{i}", [t]))
                if tier == "thorough" or i % 3 == 0:
                    out.append((f"trunc{si}@{i}+1", [t, 1]))
        for t in ("", " ", "\n", "// c", "/* c */", "/* c", "//! d", "/// d", "r", "r =", "r = {", "r = { }", "r = { undefined }", "r = { r }", 'r = { "a" }\nr = { "b" }', "ANY = { \"a\" }", "r = { PEEK[9..] }", "r = { a{0} }", "r = { a{3,1} }", "r = { \"\"* }", "a = { (!b ~ ANY)* }", "a = { (!b ~ ANY)* }\nb = { b }", "a = { 'z'..'a' | \"x\" }", "a = { 'z'..'a' }", "a = { (!(\"x\" | c) ~ ANY)* }\nc = _{ c | \"y\" }", "WHITESPACE = { \"\" }\nr = { \"a\" ~ \"b\" }"):
            out.append((f"special/{t!r}", [t]))
        # size: nothing in the statement bounds the text ("every input string whatsoever"); these are single
        # concrete texts, far outside the symbolic windows, kept because each exercises a resource limit
        for name, t in SIZE_SPECIALS.items():
            out.append((f"size/{name}", [t]))
    return out


def main_for(prop: str, tier: str, seed: int, args) -> int:
    t0 = time.time()
    known = core.Known()
    if not metaref.meta_file_unchanged():
        print("inconclusive: tests/grammars/meta.pest differs from the pinned copy the reference was transcribed from")
    texts = texts_for(prop, tier, seed)
    regions = known.regions_for(prop)
    if args.only:
        texts = [t for t in texts if args.only in t[0]]
    SPLITS = [(0, 0x20), (0x21, 0x27), (0x28, 0x2F), (0x30, 0x40), (0x41, 0x5A), (0x5B, 0x60), (0x61, 0x7A), (0x7B, symx.MAXCP)]
    tasks = []
    concrete_fam = [(n, p) for n, p in texts if n.startswith("fam/") and not any(isinstance(x, int) for x in p)]
    texts = [(n, p) for n, p in texts if (n, p) not in concrete_fam] if concrete_fam else texts
    for i in range(0, len(concrete_fam), 60):
        part = concrete_fam[i : i + 60]
        tasks.append({"fn": "c10", "unit": f"fam-concrete/{i // 60:03d}", "prop": prop, "split": None, "texts": part, "regions": {}, "max_paths": 10, "budget_s": 200})
    for name, parts in texts:
        wide = sum(p for p in parts if isinstance(p, int)) >= 2
        for sp in SPLITS if wide else [None]:
            unit = name + (f"#{sp[0]:x}-{sp[1]:x}" if sp else "")
            tasks.append(
                {
                    "fn": "c10",
                    "unit": unit,
                    "prop": prop,
                    "split": sp,
                    "texts": [(unit, parts)],
                    "regions": {unit: regions[unit]} if unit in regions else {},
                    "max_paths": 8000 if tier == "quick" else 60000,
                    "budget_s": 150 if tier == "quick" else 1200,
                }
            )
    print(f"{prop} {tier}: {len(texts)} templates in {len(tasks)} units", flush=True)
    results = core.run_units(None, tasks, init=copies)
    selfcheck = {}
    return core.finish(
        prop,
        tier,
        seed,
        "model_checking",
        results,
        t0=t0,
        rule=(
            "one case = one feasible path of the real Scanner + grammar Parser (and, for C10, of the reference "
            "meta-grammar evaluation) on a template with a window of w symbolic characters (all code points); the "
            "paths partition the window contents into the classes the front end or the reference can distinguish"
        ),
        assumptions=[
            "the reference is pest's meta-grammar (tests/grammars/meta.pest, sha-256 pinned, neutral AST in golden/meta.json) evaluated by refpeg, plus a denotation function; it accepts all 15 bundled .pest files and reproduces their structure (checked at authoring time and by the canonical templates of every run)",
            "windows: w <= 2 at every slot (w = 3 at selected slots in the thorough tier), one symbolic character replaced/inserted at every (second, quick) offset of three small grammars; texts not derived from a template are outside the claim",
            "syntax only: pest's later validation passes (undefined rules, duplicate names, left recursion, out-of-range escapes) are not part of 'syntactically valid'",
            "rule names on the left of '=' are hashed by the front end: symbolic names are concretised by forking (<= 64 values) or the path is inconclusive",
            "escape sequences with symbolic characters are inconclusive here (C12 decides the decoder)",
            "C11: 'points at a line and column that exist' = 1 <= line <= number of '\\n'-separated lines and 0 <= col <= len(line)+1",
        ],
        extra_cov=selfcheck,
        functions=["pest.grammar.scanner.Scanner.*", "pest.grammar.parser.Parser.*", "pest.grammar.unescape.unescape_string", "pest.grammar.tokens.Token", "pest.grammar.exceptions.PestGrammarError.{__str__,detailed_message,_error_context}", "pest.parser.Parser.from_grammar/__init__", "pest.grammar.optimizer.Optimizer.optimize (C11)"],
        bounds={"window": 2 if tier == "quick" else 3, "templates": len(texts)},
        known=known,
    )


def main(tier: str, seed: int, args) -> int:
    return main_for("C10", tier, seed, args)
