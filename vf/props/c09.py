"""C09 - snapshotting stack / counter / parser state act like full-copy snapshots.

Decided by ONE INDUCTIVE STEP from an arbitrary valid representation state
(DESIGN.md 6 C09): the representation (lengths of the three lists enumerated,
the (count, remained) pairs symbolic integers constrained only by the
representation invariant Inv) is abstracted by alpha to (contents, [contents of
every snapshot]) and for every operation op of the real class

        alpha(op(S)) == op_ref(alpha(S))   and   Inv(op(S))

is asserted on every feasible path.  A counterexample pre-state is accepted only
after a concrete history that reaches it has been found and replayed.
Companion: symbolic-opcode histories of bounded length against the reference.
"""

from __future__ import annotations

import itertools
import time

import z3

from .. import core, famcheck, replay_ext, symx
from ..symx import Engine, SymInt, mkint

OPS = ["push", "pop", "clear", "snapshot", "restore", "drop_snapshot", "peek", "len", "iter", "getitem", "empty"]


def _stack_cls():
    return famcheck.copy_a().modules["pest.stack"].Stack


def _c(x):
    """Concretise a (possibly symbolic) int through the engine."""
    return x.__index__() if isinstance(x, SymInt) else x


# ---------------------------------------------------------------------------
# abstraction and reference


def alpha(items, popped, lengths):
    """(current contents, [contents restore() would give for each snapshot, oldest first])."""
    cur = list(items)
    pop = list(popped)
    snaps = []
    contents = cur
    for count, rem in reversed(lengths):
        count, rem = _c(count), _c(rem)
        k = count - rem
        seg = pop[len(pop) - k :] if k else []
        pop = pop[: len(pop) - k]
        contents = contents[:rem] + list(reversed(seg))
        snaps.append(contents)
    snaps.reverse()
    return cur, snaps


def op_ref(state, op, arg=None):
    """Full-copy reference; returns (new_state, observable) or raises IndexError."""
    cur, snaps = list(state[0]), [list(s) for s in state[1]]
    obs = None
    if op == "push":
        cur.append(arg)
    elif op == "pop":
        obs = cur.pop()
    elif op == "clear":
        cur = []
    elif op == "snapshot":
        snaps.append(list(cur))
    elif op == "restore":
        cur = snaps.pop() if snaps else []
    elif op == "drop_snapshot":
        if snaps:
            snaps.pop()
    elif op == "peek":
        obs = cur[-1]
    elif op == "len":
        obs = len(cur)
    elif op == "iter":
        obs = list(cur)
    elif op == "getitem":
        obs = (cur[0] if cur else None, cur[:])
    elif op == "empty":
        obs = not cur
    return (cur, snaps), obs


def apply_real(st, op, arg=None):
    if op == "push":
        return st.push(arg)
    if op == "pop":
        return st.pop()
    if op == "clear":
        return st.clear()
    if op == "snapshot":
        return st.snapshot()
    if op == "restore":
        return st.restore()
    if op == "drop_snapshot":
        return st.drop_snapshot()
    if op == "peek":
        return st.peek()
    if op == "len":
        return len(st)
    if op == "iter":
        return list(st)
    if op == "getitem":
        return (st[0] if len(st) else None, st[:])
    if op == "empty":
        return st.empty()
    raise ValueError(op)


def inv_terms(li, lp, lengths):
    """Representation invariant as a list of z3 constraints / python bools."""
    cs = []
    total = 0
    for k, (c, r) in enumerate(lengths):
        cs += [r >= 0, r <= c]
        if k + 1 < len(lengths):
            cs.append(r <= lengths[k + 1][0])
        total = total + (c - r)
    if lengths:
        cs.append(lengths[-1][1] <= li)
        cs.append(total == lp)
    else:
        cs.append(lp == 0)
    return cs


def _raw(x):
    return x.t if isinstance(x, SymInt) else x


# ---------------------------------------------------------------------------
# the inductive step unit


@core.task_fn("c09_step")
def run_step(task: dict) -> dict:
    li, lp, ls, op = task["li"], task["lp"], task["ls"], task["op"]
    res = core.new_result(task["unit"])
    Stack = _stack_cls()
    eng = Engine()
    key = "step"
    holder = {}

    def fn(e):
        items = [100 + i for i in range(li)]
        popped = [200 + j for j in range(lp)]
        lens = []
        for k in range(ls):
            c = e.int_var(f"cnt{k}", 0, li + lp)
            r = e.int_var(f"rem{k}", 0, li + lp)
            lens.append((c, r))
        for t in inv_terms(li, lp, lens):
            if t is False:
                e.assume(z3.BoolVal(False))
            elif t is not True:
                e.assume(t)
        st = Stack()
        st.items = list(items)
        st.popped = list(popped)
        st.lengths = [(mkint(c), mkint(r)) for c, r in lens]
        pre = alpha(st.items, st.popped, st.lengths)
        holder["pre_struct"] = [( _c(c), _c(r)) for c, r in st.lengths]
        want_exc = None
        try:
            want, wobs = op_ref(pre, op, 999)
        except IndexError:
            want_exc = "IndexError"
        got_exc = None
        try:
            gobs = apply_real(st, op, 999)
        except (symx.Unsupported, symx.Inconclusive):
            raise
        except Exception as ex:  # noqa: BLE001
            got_exc = type(ex).__name__
        fails = []
        if want_exc or got_exc:
            if want_exc != got_exc:
                fails.append(("exception", f"real={got_exc} ref={want_exc}"))
            return fails
        post = alpha(st.items, st.popped, st.lengths)
        if post != want:
            fails.append(("alpha", f"after {op}: real={post} ref={want}"))
        if gobs != wobs and op in ("pop", "peek", "len", "iter", "getitem", "empty"):
            fails.append(("observer", f"{op}: real={gobs!r} ref={wobs!r}"))
        inv = [t for t in inv_terms(len(st.items), len(st.popped), [(_raw(c), _raw(r)) for c, r in st.lengths])]
        if any(t is False for t in inv):
            fails.append(("inv", "representation invariant broken after " + op))
        else:
            sym = [t for t in inv if t is not True and not isinstance(t, bool)]
            if sym and not e.implied(z3.And(*sym)):
                fails.append(("inv", "representation invariant not preserved by " + op))
        return fails

    try:
        for pr in eng.explore(fn, max_paths=50000):
            if pr.status != "ok":
                res["inconclusive"].append((key, f"{pr.status}: {pr.reason}"))
                continue
            res["accepting"] += 1
            struct = holder["pre_struct"]
            if len(res["samples"]) < 1:
                res["samples"].append({"pre_state": {"items": li, "popped": lp, "lengths": struct}, "op": op})
            if pr.value:
                # reachability replay: find a concrete history reaching this shape
                hist = find_history(li, lp, struct, task.get("bfs_len", 9))
                if hist is None:
                    res["harness_errors"].append(f"C09: counterexample pre-state not reachable by any history (Inv too weak?): items={li} popped={lp} lengths={struct} op={op} {pr.value}")
                    continue
                full = hist + [op]
                bad = replay_history(Stack, full)
                res["validated"] += 1
                if not bad:
                    res["harness_errors"].append(f"C09: step counterexample does not reproduce through history {full}: {pr.value}")
                    continue
                res["failures"].append(
                    {
                        "key": f"{li},{lp},{struct},{op}",
                        "kind": ",".join(f[0] for f in pr.value),
                        "detail": " | ".join(f[1] for f in pr.value)[:500] + f" ; history={full} -> {bad}",
                        "witness": full,
                        "pc": "true",
                        "vars": [],
                        "status": "new",
                        "finding": None,
                        "replay": {"type": "c09_history", "module": "vf.props.c09", "history": full, "cls": "Stack"},
                    }
                )
            else:
                res["validated"] += 0
    except symx.Inconclusive as e:
        res["inconclusive"].append((key, str(e)))
    core.absorb_engine(res, eng)
    return res


_REACH: dict = {}


def _reach_table(maxlen: int):
    """BFS over concrete histories on the *reference*-validated real Stack: shape -> history."""
    if maxlen in _REACH:
        return _REACH[maxlen]
    Stack = _stack_cls()
    table = {}
    frontier = [[]]
    ops = ["push", "pop", "clear", "snapshot", "restore", "drop_snapshot"]
    seen = set()
    for _depth in range(maxlen + 1):
        nxt = []
        for h in frontier:
            st = Stack()
            ok = True
            try:
                for i, o in enumerate(h):
                    apply_real(st, o, 1000 + i)
            except Exception:  # noqa: BLE001
                ok = False
            if not ok:
                continue
            shape = (len(st.items), len(st.popped), tuple(st.lengths))
            if shape in seen:
                continue
            seen.add(shape)
            table[shape] = h
            if len(st.items) <= 6 and len(st.lengths) <= 4:
                for o in ops:
                    nxt.append(h + [o])
        frontier = nxt
    _REACH[maxlen] = table
    return table


def find_history(li, lp, struct, maxlen):
    return _reach_table(maxlen).get((li, lp, tuple(tuple(x) for x in struct)))


def replay_history(Stack, hist) -> list:
    """Run a concrete history on the real Stack against the full-copy reference."""
    st = Stack()
    ref = ([], [])
    for i, o in enumerate(hist):
        want_exc = got_exc = None
        try:
            nref, wobs = op_ref(ref, o, 1000 + i)
        except IndexError:
            want_exc = "IndexError"
        try:
            gobs = apply_real(st, o, 1000 + i)
        except Exception as ex:  # noqa: BLE001
            got_exc = type(ex).__name__
        if want_exc or got_exc:
            if want_exc != got_exc:
                return [("exception", f"step {i} {o}: real={got_exc} ref={want_exc}")]
            continue
        ref = nref
        if list(st) != ref[0]:
            return [("contents", f"step {i} {o}: real={list(st)} ref={ref[0]}")]
        if o in ("pop", "peek") and gobs != wobs:
            return [("observer", f"step {i} {o}: real={gobs} ref={wobs}")]
    # every snapshot must still be exactly restorable
    for j in range(len(ref[1])):
        try:
            st.restore()
        except Exception as ex:  # noqa: BLE001
            return [("exception", f"final restore {j}: {type(ex).__name__}")]
        want = ref[1][len(ref[1]) - 1 - j]
        if list(st) != want:
            return [("restore", f"final restore {j}: real={list(st)} ref={want}")]
    return []


# ---------------------------------------------------------------------------
# companion: histories with symbolic op codes


HOPS = ["push", "pop", "clear", "snapshot", "restore", "drop_snapshot"]


@core.task_fn("c09_hist")
def run_hist(task: dict) -> dict:
    L, first = task["L"], task["first"]
    res = core.new_result(task["unit"])
    Stack = _stack_cls()
    eng = Engine()
    holder = {}

    def fn(e):
        codes = [e.int_var(f"op{i}", 0, len(HOPS) - 1) for i in range(L)]
        for i, f in enumerate(first):
            e.assume(codes[i] == f)
        st = Stack()
        ref = ([], [])
        hist = []
        holder["hist"] = hist
        for i in range(L):
            code = SymInt(codes[i])
            o = None
            for j, name in enumerate(HOPS[:-1]):
                if code == j:
                    o = name
                    break
            o = o or HOPS[-1]
            hist.append(o)
            want_exc = got_exc = None
            try:
                nref, wobs = op_ref(ref, o, 1000 + i)
            except IndexError:
                want_exc = "IndexError"
            try:
                gobs = apply_real(st, o, 1000 + i)
            except Exception as ex:  # noqa: BLE001
                got_exc = type(ex).__name__
            if want_exc or got_exc:
                if want_exc != got_exc:
                    return [("exception", f"step {i} {o}: real={got_exc} ref={want_exc}")]
                continue
            ref = nref
            if list(st) != ref[0] or len(st) != len(ref[0]):
                return [("contents", f"step {i} {o}: real={list(st)} ref={ref[0]}")]
            if ref[0] and st.peek() != ref[0][-1]:
                return [("peek", f"step {i} {o}")]
            if o == "pop" and gobs != wobs:
                return [("observer", f"step {i} pop: real={gobs} ref={wobs}")]
        for j in range(len(ref[1])):
            try:
                st.restore()
            except Exception as ex:  # noqa: BLE001
                return [("exception", f"final restore {j}: {type(ex).__name__}")]
            want = ref[1][len(ref[1]) - 1 - j]
            if list(st) != want:
                return [("restore", f"final restore {j}: real={list(st)} ref={want}")]
        return []

    try:
        for pr in eng.explore(fn, max_paths=200000):
            if pr.status != "ok":
                res["inconclusive"].append(("hist", f"{pr.status}: {pr.reason}"))
                continue
            hist = list(holder["hist"])
            res["accepting"] += 1
            if len(res["samples"]) < 1:
                res["samples"].append({"history": hist})
            bad = replay_history(Stack, hist)
            if bool(bad) != bool(pr.value):
                res["harness_errors"].append(f"C09 history path/concrete mismatch {hist}: {pr.value} vs {bad}")
                continue
            res["validated"] += 1
            if pr.value:
                res["failures"].append(
                    {
                        "key": ",".join(hist),
                        "kind": pr.value[0][0],
                        "detail": pr.value[0][1],
                        "witness": hist,
                        "pc": "true",
                        "vars": [],
                        "status": "new",
                        "finding": None,
                        "replay": {"type": "c09_history", "module": "vf.props.c09", "history": hist, "cls": "Stack"},
                    }
                )
    except symx.Inconclusive as e:
        res["inconclusive"].append(("hist", str(e)))
    core.absorb_engine(res, eng)
    return res


# ---------------------------------------------------------------------------
# SnapshottingInt: inductive step with symbolic value and checkpoints


IOPS = ["snapshot", "restore", "drop", "zero", "add1", "sub1", "add_k", "neg", "cmp"]


@core.task_fn("c09_int")
def run_int(task: dict) -> dict:
    nck, op = task["nck"], task["op"]
    res = core.new_result(task["unit"])
    SI = famcheck.copy_a().modules["pest.checkpoint_int"].SnapshottingInt
    eng = Engine()
    holder = {}

    def fn(e):
        v = e.int_var("v", -5, 5)
        cks = [e.int_var(f"ck{i}", -5, 5) for i in range(nck)]
        k = e.int_var("k", -3, 3)
        x = SI()
        x._value = mkint(v)
        x._checkpoints = [mkint(c) for c in cks]
        ref_v, ref_cks = v, list(cks)
        obs = wobs = None
        if op == "snapshot":
            x.snapshot()
            ref_cks = ref_cks + [ref_v]
        elif op == "restore":
            r = x.restore()
            obs, wobs = r is x, True
            if ref_cks:
                ref_v = ref_cks[-1]
                ref_cks = ref_cks[:-1]
            else:
                ref_v = 0
        elif op == "drop":
            x.drop()
            ref_cks = ref_cks[:-1]
        elif op == "zero":
            x.zero()
            ref_v = 0
        elif op == "add1":
            x += 1
            ref_v = ref_v + 1
        elif op == "sub1":
            x -= 1
            ref_v = ref_v - 1
        elif op == "add_k":
            x += SymInt(k)
            ref_v = ref_v + k
        elif op == "neg":
            x = -x
            ref_v = -ref_v
        elif op == "cmp":
            obs = (bool(x > 0), bool(x == 0), bool(x < 0), bool(x >= 1), bool(x <= 0), bool(x != 0))
            wobs = (e.branch(v > 0), e.branch(v == 0), e.branch(v < 0), e.branch(v >= 1), e.branch(v <= 0), e.branch(v != 0))
        fails = []
        if not isinstance(x, SI):
            return [("type", f"{op} returned {type(x).__name__}")]
        if not e.implied(_raw(x._value) == ref_v if not isinstance(ref_v, int) or not isinstance(_raw(x._value), int) else z3.BoolVal(_raw(x._value) == ref_v)):
            fails.append(("value", f"after {op}: value {x._value} != ref {ref_v}"))
        if len(x._checkpoints) != len(ref_cks):
            fails.append(("checkpoints", f"after {op}: {len(x._checkpoints)} checkpoints, ref {len(ref_cks)}"))
        else:
            for a, b in zip(x._checkpoints, ref_cks):
                ra = _raw(a)
                cond = (ra == b) if not (isinstance(ra, int) and isinstance(b, int)) else z3.BoolVal(ra == b)
                if not e.implied(cond):
                    fails.append(("checkpoints", f"after {op}: checkpoint {a} != ref {b}"))
        if obs != wobs:
            fails.append(("observer", f"{op}: {obs} != {wobs}"))
        return fails

    try:
        for pr in eng.explore(fn, max_paths=20000):
            if pr.status != "ok":
                res["inconclusive"].append(("int", f"{pr.status}: {pr.reason}"))
                continue
            res["accepting"] += 1
            res["validated"] += 1
            if len(res["samples"]) < 1:
                res["samples"].append({"counter_state": pr.model, "op": op})
            if pr.value:
                res["failures"].append(
                    {
                        "key": f"{nck},{op}",
                        "kind": pr.value[0][0],
                        "detail": " | ".join(f[1] for f in pr.value),
                        "witness": pr.model,
                        "pc": "true",
                        "vars": [],
                        "status": "new",
                        "finding": None,
                        "replay": {"type": "c09_int", "module": "vf.props.c09", "model": pr.model, "nck": nck, "op": op},
                    }
                )
    except symx.Inconclusive as e:
        res["inconclusive"].append(("int", str(e)))
    core.absorb_engine(res, eng)
    return res


# ---------------------------------------------------------------------------
# ParserState.checkpoint / ok / restore over the four components together


@core.task_fn("c09_state")
def run_state(task: dict) -> dict:
    """Symbolic-opcode histories over ParserState: checkpoint/ok/restore interleaved with
    pos moves, user pushes/pops, rule pushes/pops and atomic depth changes; after every
    step the four components equal the full-copy reference."""
    L, first = task["L"], task["first"]
    res = core.new_result(task["unit"])
    PS = famcheck.copy_a().pest.ParserState
    RF = famcheck.copy_a().pest.RuleFrame
    SOPS = ["checkpoint", "ok", "restore", "pos+", "upush", "upop", "rpush", "rpop", "depth+", "depth0", "uclear"]
    eng = Engine()
    holder = {}

    def run(codes_sym, e):
        st = PS("x" * 40, 0)
        ref = {"pos": 0, "u": [], "r": [], "d": 0}
        saves = []
        hist = []
        holder["hist"] = hist
        for i in range(L):
            o = None
            code = codes_sym[i]
            for j, name in enumerate(SOPS[:-1]):
                if code == j:
                    o = name
                    break
            o = o or SOPS[-1]
            hist.append(o)
            if o == "checkpoint":
                st.checkpoint()
                saves.append({"pos": ref["pos"], "u": list(ref["u"]), "r": list(ref["r"]), "d": ref["d"]})
            elif o == "ok":
                if not saves:
                    continue
                st.ok()
                saves.pop()
            elif o == "restore":
                if not saves:
                    continue
                st.restore()
                ref = saves.pop()
            elif o == "pos+":
                st.pos += 1
                ref["pos"] += 1
            elif o == "upush":
                st.push(f"v{i}")
                ref["u"].append(f"v{i}")
            elif o == "upop":
                if not ref["u"]:
                    continue
                st.drop()
                ref["u"].pop()
            elif o == "uclear":
                st.user_stack.clear()
                ref["u"] = []
            elif o == "rpush":
                fr = RF(f"r{i}", 0)
                st.rule_stack.push(fr)
                ref["r"].append(fr.name)
            elif o == "rpop":
                if not ref["r"]:
                    continue
                st.rule_stack.pop()
                ref["r"].pop()
            elif o == "depth+":
                st.atomic_depth += 1
                ref["d"] += 1
            elif o == "depth0":
                st.atomic_depth.zero()
                ref["d"] = 0
            got = (st.pos, list(st.user_stack), [f.name for f in st.rule_stack], int(st.atomic_depth))
            want = (ref["pos"], ref["u"], ref["r"], ref["d"])
            if got != want:
                return [("state", f"step {i} {o}: real={got} ref={want}")]
        # unwind: every outstanding checkpoint must restore exactly
        while saves:
            st.restore()
            ref = saves.pop()
            got = (st.pos, list(st.user_stack), [f.name for f in st.rule_stack], int(st.atomic_depth))
            want = (ref["pos"], ref["u"], ref["r"], ref["d"])
            if got != want:
                return [("restore", f"unwinding: real={got} ref={want}")]
        return []

    def fn(e):
        codes = [e.int_var(f"op{i}", 0, len(SOPS) - 1) for i in range(L)]
        for i, f in enumerate(first):
            e.assume(codes[i] == f)
        return run([SymInt(c) for c in codes], e)

    try:
        for pr in eng.explore(fn, max_paths=300000):
            if pr.status != "ok":
                res["inconclusive"].append(("state", f"{pr.status}: {pr.reason}"))
                continue
            hist = list(holder["hist"])
            res["accepting"] += 1
            res["validated"] += 1
            if len(res["samples"]) < 1:
                res["samples"].append({"parser_state_history": hist})
            if pr.value:
                res["failures"].append(
                    {
                        "key": ",".join(hist),
                        "kind": pr.value[0][0],
                        "detail": pr.value[0][1],
                        "witness": hist,
                        "pc": "true",
                        "vars": [],
                        "status": "new",
                        "finding": None,
                        "replay": {"type": "c09_state", "module": "vf.props.c09", "codes": [SOPS.index(h) for h in hist], "L": L},
                    }
                )
    except symx.Inconclusive as e:
        res["inconclusive"].append(("state", str(e)))
    core.absorb_engine(res, eng)
    return res


# ---------------------------------------------------------------------------
# replay handlers


def _replay_history(spec):
    from .. import pestenv

    cp = pestenv.load_copy()
    return replay_history(cp.modules["pest.stack"].Stack, spec["history"])


replay_ext.HANDLERS["c09_history"] = _replay_history


def _replay_int(spec):
    from .. import pestenv

    cp = pestenv.load_copy()
    SI = cp.modules["pest.checkpoint_int"].SnapshottingInt
    m, op, nck = spec["model"], spec["op"], spec["nck"]
    x = SI()
    x._value = m["v"]
    x._checkpoints = [m[f"ck{i}"] for i in range(nck)]
    v, cks = m["v"], list(x._checkpoints)
    if op == "snapshot":
        x.snapshot(); cks.append(v)
    elif op == "restore":
        x.restore(); v = cks.pop() if cks else 0
    elif op == "drop":
        x.drop(); cks = cks[:-1]
    elif op == "zero":
        x.zero(); v = 0
    elif op == "add1":
        x += 1; v += 1
    elif op == "sub1":
        x -= 1; v -= 1
    elif op == "add_k":
        x += m["k"]; v += m["k"]
    elif op == "neg":
        x = -x; v = -v
    elif op == "cmp":
        got = (x > 0, x == 0, x < 0, x >= 1, x <= 0, x != 0)
        want = (v > 0, v == 0, v < 0, v >= 1, v <= 0, v != 0)
        return [] if got == want else [("observer", f"{got} != {want}")]
    if int(x) != v or x._checkpoints != cks:
        return [("value", f"{int(x)} {x._checkpoints} != {v} {cks}")]
    return []


replay_ext.HANDLERS["c09_int"] = _replay_int


def _replay_state(spec):
    from .. import pestenv, famcheck as fc

    pestenv.REAL = True
    fc._COPY_A = None
    task = {"unit": "replay", "L": spec["L"], "first": spec["codes"]}
    r = run_state(task)
    return [(f["kind"], f["detail"]) for f in r["failures"]]


replay_ext.HANDLERS["c09_state"] = _replay_state


# ---------------------------------------------------------------------------


def canaries():
    """In-memory mutants that the check must detect (pinned defects of the original tree)."""
    Stack = _stack_cls()
    orig_drop, orig_pop = Stack.drop_snapshot, Stack.pop

    def bad_drop(self):
        if self.lengths:
            c, r = self.lengths.pop()
            del self.popped[c - r :]

    def bad_pop(self):
        return self.items.pop()

    out = []
    for name, attr, fn, hist in (
        ("drop_snapshot-absolute-index", "drop_snapshot", bad_drop, ["push", "snapshot", "snapshot", "pop", "drop_snapshot", "restore"]),
        ("pop-without-recording", "pop", bad_pop, ["push", "snapshot", "pop", "restore"]),
    ):
        setattr(Stack, attr, fn)
        try:
            t = run_step({"unit": "canary", "li": 1, "lp": 1, "ls": 2, "op": "drop_snapshot"}) if attr == "drop_snapshot" else run_step({"unit": "canary", "li": 1, "lp": 0, "ls": 1, "op": "pop"})
            t2 = replay_history(Stack, hist)
            out.append((name, bool(t["failures"] or t["harness_errors"]) and bool(t2)))
        finally:
            setattr(Stack, "drop_snapshot", orig_drop)
            setattr(Stack, "pop", orig_pop)
            _REACH.clear()
    return out


def main(tier: str, seed: int, args) -> int:
    t0 = time.time()
    known = core.Known()
    famcheck.copy_a()
    can = canaries()
    if not all(ok for _n, ok in can):
        print("HARNESS-ERROR: canary mutant not detected:", can)
        return core.EXIT_HARNESS
    q = tier == "quick"
    maxi, maxp, maxs = (3, 3, 2) if q else (4, 4, 3)
    tasks = []
    for li, lp, ls in itertools.product(range(maxi + 1), range(maxp + 1), range(maxs + 1)):
        if ls == 0 and lp:
            continue
        for op in OPS:
            tasks.append({"fn": "c09_step", "unit": f"step/i{li}p{lp}s{ls}/{op}", "li": li, "lp": lp, "ls": ls, "op": op})
    L = 5 if q else 7
    for f in itertools.product(range(len(HOPS)), repeat=2):
        tasks.append({"fn": "c09_hist", "unit": f"hist/L{L}/{f[0]}{f[1]}", "L": L, "first": list(f)})
    for nck in range(0, 3 if q else 4):
        for op in IOPS:
            tasks.append({"fn": "c09_int", "unit": f"int/ck{nck}/{op}", "nck": nck, "op": op})
    LS = 4 if q else 5
    for f in itertools.product(range(11), repeat=1 if q else 2):
        tasks.append({"fn": "c09_state", "unit": f"state/L{LS}/{'-'.join(map(str, f))}", "L": LS, "first": list(f)})
    if args.only:
        tasks = [t for t in tasks if args.only in t["unit"]]
    print(f"C09 {tier}: {len(tasks)} units", flush=True)
    results = core.run_units(None, tasks, init=famcheck.copy_a)
    return core.finish(
        "C09",
        tier,
        seed,
        "model_checking",
        results,
        t0=t0,
        rule=(
            "inductive step: one case = one feasible path of one real Stack/SnapshottingInt operation from a symbolic "
            "representation state satisfying Inv (list sizes enumerated, (count, remained) pairs and counter values symbolic); "
            "companion: one case = one operation history with symbolic op codes (Stack length <= %d, ParserState length <= %d), "
            "compared with a full-copy reference after every step and on unwinding all snapshots" % (L, LS)
        ),
        assumptions=[
            "Stack items are distinguishable concrete values (the code never inspects them); structure is symbolic",
            "a step counterexample is reported only after a concrete history reaching the pre-state (BFS, length <= 9) reproduces it; an unreachable pre-state is a harness error (Inv too weak), never a finding",
            "list sizes beyond the bound are outside the claim (no size-dependent branch exists beyond the comparisons covered, but this is not proved)",
            "SnapshottingInt: / and ** are not covered (float / non-linear); value range -5..5, checkpoints <= 3",
        ],
        extra_cov={"canaries_detected": [n for n, _ in can]},
        functions=["pest.stack.Stack.{push,pop,clear,snapshot,restore,drop_snapshot,peek,__len__,__iter__,__getitem__,empty}", "pest.checkpoint_int.SnapshottingInt.*", "pest.state.ParserState.{checkpoint,ok,restore,push,drop}"],
        bounds={"items": maxi, "popped": maxp, "snapshots": maxs, "history_len": L, "state_history_len": LS},
        known=known,
    )
