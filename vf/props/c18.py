"""C18 - PrattParser honours the declared precedence / associativity table.

Symbolic: every precedence (integer >= 1) and every associativity flag.
Enumerated: the stream shape  prefix* operand postfix* (infix prefix* operand postfix*)*
where every operator occurrence has its own table entry (so shared entries are
the special case of equal values).  Oracle: a validity predicate on the tuple
tree the real parse_expr returns (not a second parser).
"""

from __future__ import annotations

import itertools
import time

import z3

from .. import core, famcheck, replay_ext, symx
from ..symx import Engine, SymBool, SymInt, mkint


def shapes(max_operands: int, max_ops: int, max_affix: int):
    out = []
    for k in range(1, max_operands + 1):
        for aff in itertools.product(range(max_affix + 1), repeat=2 * k):
            if (k - 1) + sum(aff) <= max_ops and (k - 1) + sum(aff) >= 1:
                out.append([(aff[2 * i], aff[2 * i + 1]) for i in range(k)])
    return out


def stream_of(shape):
    """token list [(kind, name)] for a shape."""
    toks = []
    c = {"p": 0, "s": 0, "i": 0, "a": 0}

    def nxt(k):
        c[k] += 1
        return f"{k}{c[k] - 1}"

    for j, (npre, npost) in enumerate(shape):
        if j:
            toks.append(("infix", nxt("i")))
        for _ in range(npre):
            toks.append(("prefix", nxt("p")))
        toks.append(("atom", nxt("a")))
        for _ in range(npost):
            toks.append(("postfix", nxt("s")))
    return toks


def prime(cp, toks):
    """Another table for the same operator names is used first, in the same process: every operator at one
    level, infix right-associative.  A PrattParser that honours ITS OWN declared table is not affected by what
    other tables declared before it (a stale per-process cache keyed by operator name would be)."""
    prefix = {n: 6 for k, n in toks if k == "prefix"}
    postfix = {n: 6 for k, n in toks if k == "postfix"}
    infix = {n: (6, True) for k, n in toks if k == "infix"}
    try:
        make_parser(cp, prefix, postfix, infix).parse_expr(make_stream(cp, toks))
    except Exception:  # noqa: BLE001  (the primer's own result is not the subject)
        pass


def make_parser(cp, prefix, postfix, infix):
    PrattParser = cp.pest.PrattParser

    class P(PrattParser):
        PREFIX_OPS = prefix
        POSTFIX_OPS = postfix
        INFIX_OPS = infix

        def parse_primary(self, pair):
            return ("atom", pair.name)

        def parse_prefix(self, op, rhs):
            return ("pre", op.name, rhs)

        def parse_postfix(self, lhs, op):
            return ("post", op.name, lhs)

        def parse_infix(self, lhs, op, rhs):
            return ("in", op.name, lhs, rhs)

    return P()


def make_stream(cp, toks):
    Pair, RuleFrame, Stream = cp.pest.Pair, cp.pest.RuleFrame, cp.pest.Stream
    text = "x" * len(toks)
    return Stream([Pair(text, i, i + 1, RuleFrame(name, 0)) for i, (_k, name) in enumerate(toks)])


def leaves(t):
    if t[0] == "atom":
        return [t[1]]
    if t[0] == "pre":
        return [t[1]] + leaves(t[2])
    if t[0] == "post":
        return leaves(t[2]) + [t[1]]
    return leaves(t[2]) + [t[1]] + leaves(t[3])


def validity(t, prec, rassoc, gt, eq_, truth) -> list:
    """Violations of the declared table in tree t.

    gt(a, b): precedence of a is strictly greater than that of b (bool, may fork)
    eq_(a, b): equal precedence; truth(flag): value of an associativity flag.
    """
    bad = []

    def right_spine(x):
        # operators of x that could have been captured by an operator to the RIGHT of x
        while True:
            if x[0] == "in":
                yield ("in", x[1])
                x = x[3]
            elif x[0] == "pre":
                yield ("pre", x[1])
                x = x[2]
            else:
                return

    def left_spine(x):
        while True:
            if x[0] == "in":
                yield ("in", x[1])
                x = x[2]
            elif x[0] == "post":
                yield ("post", x[1])
                x = x[2]
            else:
                return

    def visit(x):
        if x[0] == "atom":
            return
        if x[0] == "in":
            op = x[1]
            for kind, o in right_spine(x[2]):
                if kind == "in":
                    if not (gt(o, op) or (eq_(o, op) and not truth(rassoc[op]))):
                        bad.append(f"left operand of {op} exposes looser infix {o}")
                else:
                    if not gt(o, op):
                        bad.append(f"left operand of {op} exposes looser prefix {o}")
            for kind, o in left_spine(x[3]):
                if kind == "in":
                    if not (gt(o, op) or (eq_(o, op) and truth(rassoc[op]))):
                        bad.append(f"right operand of {op} exposes looser infix {o}")
                else:
                    if not gt(o, op):
                        bad.append(f"right operand of {op} exposes looser postfix {o}")
            visit(x[2])
            visit(x[3])
        elif x[0] == "pre":
            op = x[1]
            for _kind, o in left_spine(x[2]):
                if not gt(o, op):
                    bad.append(f"operand of prefix {op} exposes looser {o}")
            visit(x[2])
        elif x[0] == "post":
            op = x[1]
            for _kind, o in right_spine(x[2]):
                if not gt(o, op):
                    bad.append(f"operand of postfix {op} exposes looser {o}")
            visit(x[2])

    visit(t)
    return bad


def run_concrete(cp, toks, precs, assoc):
    prefix = {n: precs[n] for k, n in toks if k == "prefix"}
    postfix = {n: precs[n] for k, n in toks if k == "postfix"}
    infix = {n: (precs[n], assoc[n]) for k, n in toks if k == "infix"}
    prime(cp, toks)
    P = make_parser(cp, prefix, postfix, infix)
    st = make_stream(cp, toks)
    try:
        t = P.parse_expr(st)
    except Exception as e:  # noqa: BLE001
        return [("raises", f"{type(e).__name__}: {e}")], None
    fails = []
    if st.peek() is not None:
        fails.append(("not-consumed", f"stopped at token {st.pos} of {len(toks)}"))
    if leaves(t) != [n for _k, n in toks][: len(leaves(t))] or (st.peek() is None and leaves(t) != [n for _k, n in toks]):
        fails.append(("leaves", f"in-order leaves {leaves(t)} differ from the stream"))
    bad = validity(t, precs, assoc, lambda a, b: precs[a] > precs[b], lambda a, b: precs[a] == precs[b], lambda f: bool(f))
    if bad:
        fails.append(("precedence", "; ".join(bad[:3])))
    return fails, t


@core.task_fn("c18")
def run(task: dict) -> dict:
    res = core.new_result(task["unit"])
    cp = famcheck.copy_a()
    regions = task.get("regions", {})
    for shape in task["shapes"]:
        toks = stream_of(shape)
        key = "".join({"prefix": "p", "postfix": "s", "infix": "i", "atom": "a"}[k] for k, _n in toks)
        eng = Engine()
        holder = {}
        ops = [(k, n) for k, n in toks if k != "atom"]

        def fn(e, toks=toks, ops=ops):
            pv = {n: e.int_var("prec_" + n, 0, 12) for _k, n in ops}
            av = {n: e.bool_var("rassoc_" + n) for k, n in ops if k == "infix"}
            # ties between operators of different fixity are not defined by the statement
            for (k1, n1), (k2, n2) in itertools.combinations(ops, 2):
                if k1 != k2:
                    e.assume(pv[n1] != pv[n2])
                elif k1 == "infix":
                    e.assume(z3.Implies(pv[n1] == pv[n2], av[n1] == av[n2]))
            holder["pv"], holder["av"] = pv, av
            prefix = {n: mkint(pv[n]) for k, n in ops if k == "prefix"}
            postfix = {n: mkint(pv[n]) for k, n in ops if k == "postfix"}
            infix = {n: (mkint(pv[n]), SymBool(av[n])) for k, n in ops if k == "infix"}
            prime(cp, toks)
            P = make_parser(cp, prefix, postfix, infix)
            st = make_stream(cp, toks)
            try:
                t = P.parse_expr(st)
            except (symx.Unsupported, symx.Inconclusive):
                raise
            except Exception as ex:  # noqa: BLE001
                return [("raises", f"{type(ex).__name__}: {ex}")], None
            fails = []
            if st.peek() is not None:
                fails.append(("not-consumed", f"stopped at token {st.pos} of {len(toks)}"))
            names = [n for _k, n in toks]
            if leaves(t) != names[: len(leaves(t))] or (st.peek() is None and leaves(t) != names):
                fails.append(("leaves", f"in-order leaves {leaves(t)} differ from the stream"))
            bad = validity(
                t,
                pv,
                av,
                lambda a, b: e.branch(pv[a] > pv[b]),
                lambda a, b: e.branch(pv[a] == pv[b]),
                lambda f: e.branch(f),
            )
            if bad:
                fails.append(("precedence", "; ".join(bad[:3])))
            return fails, t

        try:
            for pr in eng.explore(fn, max_paths=task.get("max_paths", 30000)):
                if pr.status != "ok":
                    res["inconclusive"].append((key, f"{pr.status}: {pr.reason}"))
                    continue
                fails, tree = pr.value
                precs = {n: pr.model["prec_" + n] for _k, n in ops}
                assoc = {n: bool(pr.model.get("rassoc_" + n, False)) for k, n in ops if k == "infix"}
                cf, ctree = run_concrete(cp, toks, precs, assoc)
                if ctree != tree or [f[0] for f in cf] != [f[0] for f in fails]:
                    res["harness_errors"].append(f"C18 path/concrete mismatch {key} {precs} {assoc}: {fails} {tree} vs {cf} {ctree}")
                    continue
                res["validated"] += 1
                res["accepting"] += 1
                if len(res["samples"]) < 1:
                    res["samples"].append({"stream": [n for _k, n in toks], "table": precs, "right_assoc": assoc, "tree": str(tree)})
                if fails:
                    vars_by_name = {**{"prec_" + n: v for n, v in holder["pv"].items()}, **{"rassoc_" + n: v for n, v in holder["av"].items()}}
                    status, _o = core.classify_failure(pr.pc, regions.get(key), vars_by_name)
                    res["failures"].append(
                        {
                            "key": key,
                            "kind": ",".join(f[0] for f in fails),
                            "detail": " | ".join(f[1] for f in fails)[:400] + f" tree={tree}",
                            "witness": {"stream": [n for _k, n in toks], "prec": precs, "rassoc": assoc},
                            "pc": z3.simplify(core.pc_formula(pr.pc)).sexpr(),
                            "vars": sorted(vars_by_name),
                            "status": status,
                            "finding": regions.get(key, {}).get("finding") if status == "known" else None,
                            "replay": {"type": "c18", "module": "vf.props.c18", "toks": toks, "prec": precs, "rassoc": assoc},
                        }
                    )
        except symx.Inconclusive as e:
            res["inconclusive"].append((key, str(e)))
        core.absorb_engine(res, eng)
    return res


def _replay(spec):
    from .. import pestenv

    cp = pestenv.load_copy()
    fails, _t = run_concrete(cp, [tuple(t) for t in spec["toks"]], spec["prec"], spec["rassoc"])
    return fails


replay_ext.HANDLERS["c18"] = _replay


def canary() -> bool:
    """The pinned defect (postfix precedence ignored) must be detected."""
    cp = famcheck.copy_a()
    PP = cp.pest.PrattParser
    orig = PP.parse_expr

    def old_parse_expr(self, stream, min_prec=0):
        token = stream.next()
        if token.name in self.PREFIX_OPS:
            left = self.parse_prefix(token, old_parse_expr(self, stream, self.PREFIX_OPS[token.name]))
        else:
            left = self.parse_primary(token)
        while True:
            nt = stream.peek()
            if nt is None:
                break
            if nt.name in self.POSTFIX_OPS:
                stream.next()
                left = self.parse_postfix(left, nt)
                continue
            if nt.name in self.INFIX_OPS:
                prec, ra = self.INFIX_OPS[nt.name]
                if prec < min_prec:
                    break
                stream.next()
                left = self.parse_infix(left, nt, old_parse_expr(self, stream, prec + (0 if ra else 1)))
                continue
            break
        return left

    PP.parse_expr = old_parse_expr
    try:
        r = run({"unit": "canary", "shapes": [[(1, 1)], [(0, 0), (0, 1)]]})
    finally:
        PP.parse_expr = orig
    return bool(r["failures"]) and not r["harness_errors"]


def main(tier: str, seed: int, args) -> int:
    t0 = time.time()
    known = core.Known()
    famcheck.copy_a()
    if not canary():
        print("HARNESS-ERROR: canary (postfix precedence ignored) not detected")
        return core.EXIT_HARNESS
    if tier == "quick":
        sh = shapes(4, 5, 2)
    else:
        sh = shapes(4, 7, 2)
    sh.sort(key=lambda s: (len(s), s))
    regions = known.regions_for("C18")
    chunk = 4 if tier == "quick" else 2
    tasks = []
    for i in range(0, len(sh), chunk):
        unit = f"shapes/{i // chunk:04d}"
        tasks.append({"fn": "c18", "unit": unit, "shapes": sh[i : i + chunk], "regions": {k[len(unit) + 1 :]: v for k, v in regions.items() if k.startswith(unit + "|")}})
    if args.only:
        tasks = [t for t in tasks if args.only in t["unit"]]
    print(f"C18 {tier}: {len(sh)} stream shapes in {len(tasks)} units", flush=True)
    results = core.run_units(None, tasks, init=famcheck.copy_a)
    return core.finish(
        "C18",
        tier,
        seed,
        "model_checking",
        results,
        t0=t0,
        rule="one case = one feasible path of the real PrattParser.parse_expr on an enumerated stream shape with every operator occurrence's precedence (0..12) and associativity symbolic; paths partition the tables by the relative order of the precedences; the returned tree must consume the stream, keep the in-order leaves and satisfy the validity predicate",
        assumptions=[
            "operators of different fixity never have equal precedence; equal-precedence infix operators have equal associativity (the statement defines neither)",
            "precedences range over 0..12 (only their relative order - and being 0 or not - matters to the code); <= 4 operands, <= 2 prefix/postfix per operand, total operators <= 5 (quick) / 7 (thorough)",
            "every operator occurrence has its own table entry (shared entries are the equal-values special case)",
        ],
        extra_cov={"stream_shapes": len(sh), "canary": "postfix-precedence-ignored detected"},
        functions=["pest.pratt.PrattParser.parse_expr", "pest.pairs.Stream.{next,peek}", "pest.pairs.Pair.__init__"],
        bounds={"operands": 4, "operators": 5 if tier == "quick" else 7},
        known=known,
    )
