"""C14 - Position / Span / line-column utilities agree with the text.

Symbolic text (every code point; characters other than '\\n' that
str.splitlines() honours are assumed away, as the statement says "with \\n line
breaks"), every offset and every span enumerated.
"""

from __future__ import annotations

import time

import z3

from .. import core, famcheck, replay_ext, symx
from ..symx import Engine, SymStr


def ref_lines(text):
    """[(start, end_inclusive_of_break)] of the lines of a '\\n'-broken text."""
    out, start = [], 0
    for i in range(len(text)):
        if famcheck._is_nl(text, i):
            out.append((start, i + 1))
            start = i + 1
    if start < len(text):
        out.append((start, len(text)))
    return out


def ref_line_col(text, p):
    line, last = 1, -1
    for i in range(min(p, len(text))):
        if famcheck._is_nl(text, i):
            line += 1
            last = i
    return line, p - last


def check_all(pairs_mod, text, p, a, b, content: bool):  # noqa: PLR0912
    """All assertions for one (text, offset p, span a..b). Returns list of (kind, detail)."""
    Position, Span, Pair = pairs_mod.Position, pairs_mod.Span, pairs_mod.Pair
    out = []
    n = len(text)
    want = ref_line_col(text, p)
    try:
        got = Position(text, p).line_col()
    except (symx.Unsupported, symx.Inconclusive):
        raise
    except Exception as e:  # noqa: BLE001
        return [("line_col-raises", f"p={p}: {type(e).__name__}: {e}")]
    if tuple(got) != want:
        out.append(("line_col", f"p={p}: got {got} want {want}"))
    # offsets and (line, col) determine each other: checked through the reference being injective
    lines = ref_lines(text)
    # line_of
    try:
        lo = Position(text, p).line_of()
        ls = max([s for s, _e in lines if s <= p], default=0)
        le = next((e for s, e in lines if s == ls), n) if lines else 0
        if p == n and lines and famcheck._is_nl(text, n - 1):
            ls = le = n  # empty last line
        full = text[ls:le]
        bare = text[ls : le - 1] if le > ls and famcheck._is_nl(text, le - 1) else full
        if not (famcheck._same_chars(lo, full) or famcheck._same_chars(lo, bare)):
            out.append(("line_of", f"p={p}: got len {len(lo)} want text[{ls}:{le}]"))
    except (symx.Unsupported, symx.Inconclusive):
        raise
    except Exception as e:  # noqa: BLE001
        out.append(("line_of-raises", f"p={p}: {type(e).__name__}: {e}"))
    # spans
    sp = Span(text, a, b)
    try:
        s0, s1 = sp.split()
        if (s0.pos, s1.pos) != (a, b) or sp.start_pos().pos != a or sp.end_pos().pos != b:
            out.append(("span-pos", f"{a}..{b}: split/start_pos/end_pos disagree"))
        if tuple(s0.line_col()) != ref_line_col(text, a) or tuple(s1.line_col()) != ref_line_col(text, b):
            out.append(("span-line_col", f"{a}..{b}"))
        got_lines = sp.lines()
        touched = [i for i, (s, e) in enumerate(lines) if s < b and e > a] if b > a else []
        if b > a:
            lo_i, hi_i = touched[0], touched[-1]
            variants = [(lo_i, hi_i)]
            if hi_i + 1 < len(lines) and lines[hi_i + 1][0] == b:
                variants.append((lo_i, hi_i + 1))  # pest also yields the line that starts at `end`
        else:
            cur = [i for i, (s, e) in enumerate(lines) if s <= a < e]
            variants = [None] + [(i, i) for i in cur]
            if a == n and lines and not famcheck._is_nl(text, n - 1):
                variants.append((len(lines) - 1, len(lines) - 1))
        ok = False
        for v in variants:
            exp = [] if v is None else [text[s:e] for s, e in lines[v[0] : v[1] + 1]]
            if len(exp) == len(got_lines) and all(famcheck._same_chars(g, x) for g, x in zip(got_lines, exp)):
                ok = True
                break
        if not ok:
            out.append(("span-lines", f"{a}..{b}: got {len(got_lines)} line(s) {[len(x) for x in got_lines]}, allowed {variants}"))
        if content:
            if str(sp) != text[a:b] or sp.as_str() != text[a:b]:
                out.append(("span-str", f"{a}..{b}"))

            class _R:
                name = "r"

            pr = Pair(text, a, b, _R())
            if tuple(pr.line_col()) != ref_line_col(text, a) or pr.span() != sp or str(pr) != text[a:b]:
                out.append(("pair", f"{a}..{b}"))
        else:

            class _R2:
                name = "r"

            pr = Pair(text, a, b, _R2())
            if tuple(pr.line_col()) != ref_line_col(text, a):
                out.append(("pair-line_col", f"{a}..{b}"))
    except (symx.Unsupported, symx.Inconclusive):
        raise
    except Exception as e:  # noqa: BLE001
        out.append(("span-raises", f"{a}..{b}: {type(e).__name__}: {e}"))
    return out


@core.task_fn("c14")
def run(task: dict) -> dict:
    n = task["n"]
    res = core.new_result(task["unit"])
    pairs_mod = famcheck.copy_a().modules["pest.pairs"]
    regions = task.get("regions", {})
    for p, a, b in task["cases"]:
        key = f"n{n}p{p}a{a}b{b}"
        eng = Engine()
        holder = {}

        def fn(e, p=p, a=a, b=b):
            text = SymStr.fresh(e, n) if n else ""
            if n:
                for ch in text.ch:
                    for bd in symx.LINE_BOUNDARIES:
                        if bd != 0x0A:
                            e.assume(ch != bd)
            holder["text"] = text
            return check_all(pairs_mod, text, p, a, b, False)

        try:
            for pr in eng.explore(fn, max_paths=20000):
                if pr.status != "ok":
                    res["inconclusive"].append((key, f"{pr.status}: {pr.reason}"))
                    continue
                text = holder["text"]
                w = text.concrete(pr.model) if isinstance(text, SymStr) else text
                cf = check_all(pairs_mod, w, p, a, b, True)
                if not ({f[0] for f in pr.value} <= {f[0] for f in cf} or {f[0].split("-")[0] for f in pr.value} <= {f[0].split("-")[0] for f in cf}):
                    res["harness_errors"].append(f"C14 path/concrete mismatch {key} {w!r}: {pr.value} vs {cf}")
                    continue
                fails = cf if cf else pr.value
                res["validated"] += 1
                res["accepting"] += 1
                if len(res["samples"]) < 1 and n >= 2:
                    res["samples"].append({"text": w, "offset": p, "span": [a, b]})
                if fails:
                    vars_by_name = {symx.var_name(v): v for v in famcheck._vars_of(text)}
                    status, _o = core.classify_failure(pr.pc, regions.get(key), vars_by_name)
                    res["failures"].append(
                        {
                            "key": key,
                            "kind": ",".join(sorted({f[0] for f in fails})),
                            "detail": " | ".join(f[1] for f in fails)[:500],
                            "witness": (w, p, a, b),
                            "pc": z3.simplify(core.pc_formula(pr.pc)).sexpr(),
                            "vars": sorted(vars_by_name),
                            "status": status,
                            "finding": regions.get(key, {}).get("finding") if status == "known" else None,
                            "replay": {"type": "c14", "module": "vf.props.c14", "text": w, "p": p, "a": a, "b": b},
                        }
                    )
        except symx.Inconclusive as e:
            res["inconclusive"].append((key, str(e)))
        core.absorb_engine(res, eng)
    return res


def _replay(spec):
    from .. import pestenv

    cp = pestenv.load_copy()
    return check_all(cp.modules["pest.pairs"], spec["text"], spec["p"], spec["a"], spec["b"], True)


replay_ext.HANDLERS["c14"] = _replay


def main(tier: str, seed: int, args) -> int:
    t0 = time.time()
    known = core.Known()
    nmax = 5 if tier == "quick" else 7
    regions = known.regions_for("C14")
    tasks = []
    for n in range(0, nmax + 1):
        cases = []
        spans = [(a, b) for a in range(n + 1) for b in range(a, n + 1)]
        for i, (a, b) in enumerate(spans):
            p = (a + b + i) % (n + 1)
            cases.append((p, a, b))
        covered = {c[0] for c in cases}
        for p in range(n + 1):
            if p not in covered:
                cases.append((p, 0, n))
        # one task per chunk of cases
        chunk = 3 if n >= 5 else 8
        for i in range(0, len(cases), chunk):
            unit = f"n{n}/c{i // chunk}"
            tasks.append({"fn": "c14", "unit": unit, "n": n, "cases": cases[i : i + chunk], "regions": {k[len(unit) + 1 :]: v for k, v in regions.items() if k.startswith(unit + "|")}})
    if tier == "thorough":
        from .. import chx

        tasks += chx.tasks(["_line_col_matches_definition"], 120)  # second engine (CrossHair) on the same claim at len <= 4
    if args.only:
        tasks = [t for t in tasks if args.only in t["unit"]]
    print(f"C14 {tier}: {len(tasks)} units", flush=True)
    results = core.run_units(None, tasks, init=famcheck.copy_a)
    return core.finish(
        "C14",
        tier,
        seed,
        "model_checking",
        results,
        t0=t0,
        rule="one case = one feasible path of Position/Span/Pair utilities on a fully symbolic text of length n (<= %d) for an enumerated (offset, span); paths partition the texts by the placement of line breaks and trailing whitespace" % nmax,
        assumptions=[
            "texts use '\\n' line breaks only: the nine other characters str.splitlines() honours are assumed away (statement of C14)",
            "Span.lines(): for a span ending exactly at a line start both readings are accepted (strictly touched lines, or pest's LinesSpan which also yields the line starting at `end`); empty spans may yield no line or their own line",
            "line_of() may or may not include the line break",
            "str(span)/str(pair) are evaluated on each path's concrete witness (str() of a proxy is opaque)",
        ],
        functions=["pest.pairs.Position.line_col", "pest.pairs.Position.line_of", "pest.pairs.Span.{lines,start_pos,end_pos,split,__str__,as_str}", "pest.pairs.Pair.{line_col,span,__str__}"],
        bounds={"max_len": nmax, "offsets": "all 0..n", "spans": "all 0<=a<=b<=n"},
        known=known,
    )
