"""C15 - parsers are isolated and reusable (sequential histories).

Two freshly imported copies of the pest package live in one worker: copy A goes
through a history of other activity, copy B is pristine.  The observed parse
call gets a fully symbolic input; per joint path A's result (tree, or failure
position and expected/unexpected rule sets) must equal B's.

The thread-schedule half of the property is NOT claimed: no engine here makes
CPython's scheduler symbolic (see DESIGN.md 6 C15 / 7).
"""

from __future__ import annotations

import itertools
import random
import time

import z3

from .. import core, famcheck, pestenv, replay_ext, symx
from ..symx import Engine, SymStr

GRAMMARS = {
    "hex": ('r = { ASCII_HEX_DIGIT+ ~ "x" }', "ab1x", "zz"),
    "ident": ('r = { ASCII_ALPHA ~ (ASCII_DIGIT | "_")* }\nWHITESPACE = _{ " " | "\\t" }', "a 1_", "1"),
    "uni": ("r = { LETTER ~ NEWLINE? ~ ANY }", "a\nb", "1"),
    "choice": ('r = { ("a" | "b" | \'c\'..\'e\')+ ~ EOI }\nCOMMENT = _{ "#" }', "ab#c", "ax"),
    "silent": ("r = { s ~ ASCII_ALPHANUMERIC }\ns = _{ ASCII_DIGIT{2} }", "12a", "1a"),
    "skip": ('r = { (!("ab" | "c") ~ ANY)* ~ "c" }', "xxc", "xx"),
    # shares its choice sets / literals with SIBLING below, where they play another role
    "sep": ('r = { sep ~ EOI }\nsep = { " " | "\\t" }', " ", "  "),
    "trivia": ('r = { "a" ~ EOI }\nWHITESPACE = _{ "x" | "y" }', "axy", "a b"),
    # rule names recur, with other bodies, in NAMESAKE below
    # stand-alone case-insensitive literals: compiled when the parser is built, with whatever the regex package's
    # process-wide defaults are at that moment
    "ci": ('r = { ^"ss" ~ ^"k"? ~ ("x" | ^"st")* }', "SSk", "s"),
    "skipref": ('r = { (!end ~ ANY)* ~ end }\nend = { ";" }', "ab;", "ab"),
}
# the same rule NAMES as the observed grammars (r, end, sep, s, f) with different bodies; `end` is not
# reducible to literals, so optimizer passes that give up on it exercise their bookkeeping
NAMESAKE = 'r = { (!end ~ ANY)* ~ end ~ (sep | s | f)* }\nend = { ^"x" }\nsep = { "," }\ns = { "s" }\nf = { ASCII_DIGIT }'

# same alternatives as "sep"'s rule but as implicit WHITESPACE (fused into a repeating SKIP regex),
# and the same alternatives as "trivia"'s WHITESPACE but as an ordinary single choice
SIBLING = 'o = { w ~ w+ ~ EOI }\nw = { ("x" | "y") ~ "-"? }\nWHITESPACE = _{ " " | "\\t" }'

OTHER = 'o = { ASCII_HEX_DIGIT ~ (ASCII_ALPHA | ASCII_DIGIT | "-" | "_")* ~ NEWLINE? ~ LETTER* ~ SOI? ~ EOI }\nWHITESPACE = _{ " " | "\\n" }\nCOMMENT = _{ "//" }'

OPS = ["mk_same_opt", "mk_same_plain", "mk_other_opt", "mk_other_plain", "gen_same_opt", "gen_other_opt", "gen_other_plain", "use_ok", "use_fail", "other_parse", "sibling_parse", "sibling_gen_parse", "namesake_opt", "namesake_plain"]


HIST: dict[str, str] = {}  # history grammar of a family-pair unit (set per task)
HIST_INPUTS = ["", "a", "ab", "abc", "a b", "a#!b", "aab ", "\x00"]


def build_observed(cp, gname: str, mode: str):
    g = GRAMMARS[gname][0]
    p = cp.parser(g, optimized=mode in ("IO", "GO"))
    if mode in ("G", "GO"):
        return cp.generated(p), p
    return p, p


def apply_op(cp, op: str, gname: str, observed):
    g, ok_in, bad_in = GRAMMARS[gname]
    if op == "mk_same_opt":
        cp.parser(g, optimized=True)
    elif op == "mk_same_plain":
        cp.parser(g)
    elif op == "mk_other_opt":
        cp.parser(OTHER, optimized=True)
    elif op == "mk_other_plain":
        cp.parser(OTHER)
    elif op == "gen_same_opt":
        cp.generated(cp.parser(g, optimized=True))
    elif op == "gen_other_opt":
        cp.generated(cp.parser(OTHER, optimized=True))
    elif op == "gen_other_plain":
        cp.generated(cp.parser(OTHER))
    elif op == "use_ok":
        if observed is not None:
            pestenv.run_parse(observed, "r", ok_in)
    elif op == "use_fail":
        if observed is not None:
            pestenv.run_parse(observed, "r", bad_in)
    elif op == "sibling_parse":
        p = cp.parser(SIBLING, optimized=True)
        pestenv.run_parse(p, "o", "x  y-\tx")
        pestenv.run_parse(p, "o", "xx")
    elif op == "sibling_gen_parse":
        m = cp.generated(cp.parser(SIBLING, optimized=True))
        pestenv.run_parse(m, "o", "x  y-\tx")
        pestenv.run_parse(m, "o", "xx")
    elif op in ("namesake_opt", "namesake_plain"):
        p = cp.parser(NAMESAKE, optimized=op == "namesake_opt")
        pestenv.run_parse(p, "r", "abX,s1")
        pestenv.run_parse(p, "r", "ab")
    elif op in ("pair_opt", "pair_plain", "pair_gen"):
        # another grammar of the generated family: the same rule NAMES (r, inner, x, y, s, at, cp, ...) with
        # other bodies, other trivia and other optimizer outcomes
        p = cp.parser(HIST["text"], optimized=op != "pair_plain")
        target = cp.generated(p) if op == "pair_gen" else p
        for rule in HIST["rules"]:
            for t in HIST_INPUTS:
                pestenv.run_parse(target, rule, t)
    elif op.startswith("passes:"):
        # another grammar built with a custom pass list (one pass alone, or the default list without one pass)
        names = famcheck.PASSES
        spec = op.split(":", 1)[1]
        idx = [int(spec[1:])] if spec[0] == "o" else [i for i in range(len(names)) if i != int(spec[1:])]
        by_name = {st.name: st for st in cp.pest.DEFAULT_OPTIMIZER_PASSES}
        for text, rule, inputs in ((OTHER, "o", ["a1-b\n", "!"]), (NAMESAKE, "r", ["abX,s1", "ab"]), (g, "r", [ok_in, bad_in])):
            p = cp.parser(text, passes=[by_name[names[i]] for i in idx])
            for t in inputs:
                pestenv.run_parse(p, rule, t)
    elif op == "other_parse":
        p = cp.parser(OTHER, optimized=True)
        pestenv.run_parse(p, "o", "a1-b\n")
        pestenv.run_parse(p, "o", "!")
    else:
        raise ValueError(op)


def setup(gname, mode, history, when):
    """Return (observed in A after the history, observed in pristine B)."""
    a, b = pestenv.load_copy(), pestenv.load_copy()
    obs_b, _ = build_observed(b, gname, mode)
    obs_a = None
    if when == "before":
        obs_a, _ = build_observed(a, gname, mode)
    for op in history:
        apply_op(a, op, gname, obs_a)
    if when == "after":
        obs_a, _ = build_observed(a, gname, mode)
    return obs_a, obs_b


@core.task_fn("c15")
def run(task: dict) -> dict:
    gname, mode, history, when = task["grammar"], task["mode"], task["history"], task["when"]
    res = core.new_result(task["unit"])
    _install_pair(task)
    try:
        obs_a, obs_b = setup(gname, mode, history, when)
    except Exception as e:  # noqa: BLE001
        res["failures"].append(_fail(task, "setup", "setup-exception", f"{type(e).__name__}: {str(e)[:200]}", "", "true", []))
        return res
    regions = task.get("regions", {})
    ascii_only = False
    for n in task["lengths"]:
        key = f"n{n}"
        eng = Engine()
        holder = {}

        def fn(e, n=n):
            text = SymStr.fresh(e, n) if n else ""
            holder["text"] = text
            ra = pestenv.run_parse(obs_a, "r", text, detail=True)
            rb = pestenv.run_parse(obs_b, "r", text, detail=True)
            return ra, rb

        try:
            for pr in eng.explore(fn, max_paths=20000):
                if pr.status != "ok":
                    res["inconclusive"].append((key, f"{pr.status}: {pr.reason}"))
                    text = holder.get("text")
                    if pr.model is not None and text is not None:
                        # no verdict for the path; its witness is still compared on the real objects
                        w = text.concrete(pr.model) if isinstance(text, SymStr) else text
                        ca = pestenv.run_parse(obs_a, "r", w, detail=True)
                        cb = pestenv.run_parse(obs_b, "r", w, detail=True)
                        if ca != cb:
                            res["failures"].append(_fail(task, key, "history-dependent", f"witness of a path without verdict, after history {history} ({when}): {ca} ; pristine: {cb}", w, "true", []))
                    continue
                text = holder["text"]
                w = text.concrete(pr.model) if isinstance(text, SymStr) else text
                ra, rb = pr.value
                ca = pestenv.run_parse(obs_a, "r", w, detail=True)
                cb = pestenv.run_parse(obs_b, "r", w, detail=True)
                if (ca, cb) != (ra, rb):
                    res["harness_errors"].append(f"C15 path/concrete mismatch {task['unit']} {key} {w!r}: {ra} {rb} vs {ca} {cb}"[:600])
                    continue
                res["validated"] += 1
                res["accepting" if rb[0] == "OK" else "rejecting"] += 1
                if len(res["samples"]) < 1 and n >= 2:
                    res["samples"].append({"grammar": GRAMMARS[gname][0], "mode": mode, "history": history, "observed_created": when, "input": w, "result": str(rb)[:120]})
                if ra != rb:
                    vars_by_name = {symx.var_name(v): v for v in famcheck._vars_of(text)}
                    status, _o = core.classify_failure(pr.pc, regions.get(key), vars_by_name)
                    res["failures"].append(
                        _fail(task, key, "history-dependent", f"after history {history} ({when}): {ra} ; pristine: {rb}", w, z3.simplify(core.pc_formula(pr.pc)).sexpr(), sorted(vars_by_name), status, regions.get(key))
                    )
        except symx.Inconclusive as e:
            res["inconclusive"].append((key, str(e)))
        core.absorb_engine(res, eng)
    return res


def _install_pair(task):
    if task.get("gtext"):
        GRAMMARS[task["grammar"]] = (task["gtext"], "ab", "\x00\x00")
        HIST.clear()
        HIST.update({"text": task["htext"], "rules": task["hrules"]})


def _fail(task, key, kind, detail, w, pc, vars_, status="new", region=None):
    return {
        "key": key,
        "kind": kind,
        "detail": detail[:500],
        "witness": w,
        "pc": pc,
        "vars": vars_,
        "status": status,
        "finding": (region or {}).get("finding") if status == "known" else None,
        "replay": {"type": "c15", "module": "vf.props.c15", "grammar": task["grammar"], "mode": task["mode"], "history": task["history"], "when": task["when"], "text": w,
                   "gtext": task.get("gtext"), "htext": task.get("htext"), "hrules": task.get("hrules")},
    }


def _replay(spec):
    pestenv.REAL = True
    _install_pair(spec)
    obs_a, obs_b = setup(spec["grammar"], spec["mode"], spec["history"], spec["when"])
    ra = pestenv.run_parse(obs_a, "r", spec["text"], detail=True)
    rb = pestenv.run_parse(obs_b, "r", spec["text"], detail=True)
    return [] if ra == rb else [("history-dependent", f"{ra} vs pristine {rb}")]


replay_ext.HANDLERS["c15"] = _replay


def canary() -> bool:
    """A parser whose construction rewrites a shared built-in rule must be detected."""
    orig = pestenv.load_copy

    def bad_load(*a, **k):
        cp = orig(*a, **k)
        P = cp.pest.Parser
        real_init = P.__init__
        ex = cp.modules["pest.grammar.expressions"]

        def init(self, rules, doc=None, *, optimizer=None, debug=False):
            real_init(self, rules, doc, optimizer=optimizer, debug=debug)
            if optimizer:
                r = dict.__getitem__(P.BUILTIN, "ASCII_HEX_DIGIT")
                r.expression = ex.Range("0", "8")  # shared object rewritten in place

        P.__init__ = init
        return cp

    pestenv.load_copy = bad_load
    try:
        r = run({"unit": "canary", "grammar": "hex", "mode": "I", "history": ["mk_other_opt"], "when": "after", "lengths": [1]})
    finally:
        pestenv.load_copy = orig
    return bool(r["failures"])


def pair_tasks(tier: str, seed: int) -> list[dict]:
    """Pairs (observed, history) of grammars of the generated family: they share their rule names, so whatever
    a parser build keys by rule name, literal set or expression shape is exercised across unrelated grammars."""
    from .. import family

    mem = [m for m in family.family(["none", "ws2", "cm", "cmb", "both"]) if "LETTER" not in m["features"]]
    by_kind: dict[str, list] = {}
    by_ctx: dict[str, list] = {}
    for m in mem:
        by_kind.setdefault(m["kind"], []).append(m)
        by_ctx.setdefault(m["ctx"], []).append(m)
    rnd = random.Random(f"{seed}/pairs")
    count = 400 if tier == "quick" else 3000
    tasks = []
    for i in range(count):
        o = rnd.choice(mem)
        how = i % 3
        h = rnd.choice(by_kind[o["kind"]]) if how == 0 else rnd.choice(by_ctx[o["ctx"]]) if how == 1 else rnd.choice(mem)
        if h["text"] == o["text"]:
            continue
        mode = ("IO", "GO", "I", "G")[i % 4] if tier == "quick" else None
        for md in [mode] if mode else ["I", "IO", "G", "GO"]:
            op = ("pair_opt", "pair_gen", "pair_plain")[(i // 4) % 3]
            for when in ("before", "after"):
                unit = f"pair/{o['id']}~{h['id']}/{md}/{op}/{when}"
                tasks.append({"fn": "c15", "unit": unit, "grammar": "pair:" + o["id"], "gtext": o["text"], "htext": h["text"], "hrules": family.start_rules(h),
                              "mode": md, "history": [op], "when": when, "lengths": [0, 1, 2, 3], "regions": {}})
    return tasks


def main(tier: str, seed: int, args) -> int:
    t0 = time.time()
    known = core.Known()
    famcheck.copy_a()
    if not canary():
        print("HARNESS-ERROR: canary (shared built-in rewritten by another parser) not detected")
        return core.EXIT_HARNESS
    regions = known.regions_for("C15")
    hists = [[]] + [[o] for o in OPS] + [[f"passes:{kind}{i}"] for kind in "ox" for i in range(5)]
    if tier == "quick":
        hists += [list(h) for h in itertools.product(["mk_same_opt", "mk_other_opt", "gen_other_opt", "use_fail", "other_parse", "sibling_parse", "namesake_opt"], repeat=2)]
    else:
        hists += [list(h) for h in itertools.product(OPS, repeat=2)]
        rnd = random.Random(seed)
        hists += [[rnd.choice(OPS) for _ in range(3)] for _ in range(150)]
    tasks = []
    for gname in GRAMMARS:
        for mode in ("I", "IO", "G", "GO"):
            for h in hists:
                uses = any(o.startswith("use_") for o in h)
                for when in (["before"] if uses else ["before", "after"]):
                    if not h and when == "after":
                        continue
                    unit = f"{gname}/{mode}/{'+'.join(h) or 'none'}/{when}"
                    tasks.append(
                        {
                            "fn": "c15",
                            "unit": unit,
                            "grammar": gname,
                            "mode": mode,
                            "history": h,
                            "when": when,
                            "lengths": [0, 1, 2, 3] if tier != "quick" or gname in ("sep", "trivia", "skipref", "ci") else [0, 1, 2],
                            "regions": {k[len(unit) + 1 :]: v for k, v in regions.items() if k.startswith(unit + "|")},
                        }
                    )
    tasks += pair_tasks(tier, seed)
    if args.only:
        tasks = [t for t in tasks if args.only in t["unit"]]
    print(f"C15 {tier}: {len(tasks)} units", flush=True)
    results = core.run_units(None, tasks, init=famcheck.copy_a)
    return core.finish(
        "C15",
        tier,
        seed,
        "model_checking",
        results,
        t0=t0,
        rule="one case = one feasible joint path of the observed parse() on a symbolic input (length <= 2/3) in a copy of the library that went through an enumerated history of other parser creations / code generation / earlier parses, compared with a pristine copy",
        assumptions=[
            "SEQUENTIAL histories only: 'parse() calls running at the same time on other threads' is not covered by this or any other check (no symbolic scheduler for CPython exists in the sandbox; a threaded run would be a sample, not a solver verdict)",
            "two separately imported copies of the pest package stand for 'with' and 'without' the history; the history's own parse calls use one accepted and one rejected concrete input",
            "histories: all of length <= 2 over the listed operations (quick: a 7-operation subset for length 2), ten custom pass lists (each pass alone, the default list without one pass) as length-1 histories, thorough adds 150 seeded histories of length 3",
        ],
        extra_cov={"histories": len(hists), "not_claimed": "thread schedules"},
        functions=["pest.parser.Parser.__init__/from_grammar/parse/generate", "pest.grammar.optimizer.Optimizer.optimize/_optimize_skip_rule", "pest.grammar.optimizers.*", "pest.grammar.rules.{ascii,unicode,special} (shared rule objects)", "pest.state.ParserState.fail"],
        bounds={"input_len": 2 if tier == "quick" else 3, "history_len": 2 if tier == "quick" else 3},
        known=known,
    )
