"""C17 - bundled JSON and calculator languages agree with independent references.

JSON: the RFC 8259 reference (vf/jsonref.py, validated against json.loads) runs on
the same symbolic text as the two bundled grammars in four modes: every valid
array/object document is accepted with a tree mirroring the reference structure;
every proper prefix of a valid document not ending in whitespace is rejected.

Calculators: the three front ends (precedence climbing, Pratt, grammar encoded)
parse expression skeletons whose operator / whitespace slots are symbolic; for
every path on which the independent reference accepts the expression the three
ASTs must have the reference shape and evaluate like it.
"""

from __future__ import annotations

import importlib
import math
import os
import sys
import time
import types

import z3

from .. import core, famcheck, jsonref, pestenv, replay_ext, symx
from ..symx import Engine, SymStr

JSON_FILES = {"examples": "examples/json/json.pest", "tests": "tests/grammars/json.pest"}
SPLITS = [(0, 0x1F), (0x20, 0x20), (0x21, 0x2F), (0x30, 0x5A), (0x5B, 0x5B), (0x5C, 0x7A), (0x7B, 0x7B), (0x7C, symx.MAXCP)]

DOCS = [
    '{"a":[1,-2.5e3,true,null,"x\\n"]}',
    "[ ]",
    '{"k": {"n": 0.5}, "l": []}',
    "[0,-0,10,1E2,1e+2,1.5e-3]",
    '["\\u00e9\\"\\\\\\/\\b\\f\\r\\t"]',
    " [\t1 ,\n2 ] \r",
    '{ "a" : 1 , "b" : [ ] }',
    "[[[]],{}]",
    '{"":""}',
    "[false,true,null]",
]


# ---------------------------------------------------------------------------
# JSON


def tree_to_struct(tree):
    """python-pest normal-form tree -> reference-shaped struct (generic over both grammars)."""
    roots = [p for p in tree if p[0] != "EOI"]
    if len(roots) != 1:
        return ("?", "roots", len(roots))
    return _node(roots[0])


def _node(p):
    name, a, b, _tag, kids = p
    kids = [k for k in kids if k[0] != "EOI"]
    if name in ("json", "value"):
        if len(kids) != 1:
            return ("?", name, len(kids))
        return _node(kids[0])
    if name == "object":
        members = []
        for k in kids:
            if k[0] != "pair":
                return ("?", "object-child", k[0])
            kk = [x for x in k[4]]
            if len(kk) != 2 or kk[0][0] != "string":
                return ("?", "pair", len(kk))
            members.append(((kk[0][1], kk[0][2]), _node(kk[1])))
        return ("object", (a, b), tuple(members))
    if name == "array":
        return ("array", (a, b), tuple(_node(k) for k in kids))
    if name == "string":
        return ("string", (a, b))
    if name == "number":
        return ("number", (a, b))
    if name in ("boolean", "bool"):
        return ("true" if b - a == 4 else "false", (a, b))
    if name == "null":
        return ("null", (a, b))
    return ("?", name)


_JSON_MODES: dict = {}


def json_modes(which: str):
    if which not in _JSON_MODES:
        g = open(os.path.join(pestenv.REPO, JSON_FILES[which]), encoding="utf-8").read()
        _JSON_MODES[which] = famcheck.Modes(g, ["I", "G", "IO", "GO"])
    return _JSON_MODES[which]


def json_check(which: str, text, min_prefix: int = 0):
    """All JSON assertions for one text.  -> (ref valid?, fails)"""
    modes = json_modes(which)
    ref = jsonref.document(text)
    fails = []
    res = {}
    for m, p in modes.parsers.items():
        res[m] = pestenv.run_parse(p, "json", text)
    for m, err in modes.errors.items():
        fails.append((f"{m}:build", err))
    if ref is None:
        return False, fails, res
    for m, r in res.items():
        if r[0] != "OK":
            fails.append((f"{m}:rejects-valid-json", f"{m} {which}: valid document rejected ({r})"))
            continue
        st = tree_to_struct(r[1])
        if st != ref:
            fails.append((f"{m}:tree-differs", f"{m} {which}: tree {str(st)[:150]} reference {str(ref)[:150]}"))
    if not jsonref.ends_with_ws(text):
        for k in range(min_prefix, len(text)):
            pre = text[:k]
            for m, p in modes.parsers.items():
                r = pestenv.run_parse(p, "json", pre)
                if r[0] == "OK":
                    fails.append((f"{m}:accepts-prefix", f"{m} {which}: proper prefix of length {k} accepted"))
                    break
    return True, fails, res


@core.task_fn("c17_json")
def run_json(task: dict) -> dict:
    res = core.new_result(task["unit"])
    which = task["grammar"]
    regions = task.get("regions", {})
    t_end = time.time() + task.get("budget_s", 200)
    for name, parts, split, min_prefix in task["texts"]:
        key = name
        eng = Engine()
        holder = {}

        def fn(e, parts=parts, split=split, min_prefix=min_prefix):
            sym = any(isinstance(p, int) for p in parts)
            text = SymStr.template(e, parts) if sym else "".join(parts)
            if split and isinstance(text, SymStr):
                vs = [c for c in text.ch if not isinstance(c, int)]
                for v, (lo, hi) in zip(vs, split):
                    e.assume(v >= lo)
                    e.assume(v <= hi)
            holder["text"] = text
            valid, fails, r = json_check(which, text, min_prefix)
            return valid, [f[0] for f in fails], [f[1] for f in fails], r

        try:
            for pr in eng.explore(fn, max_paths=task.get("max_paths", 30000), deadline=t_end):
                if pr.status != "ok":
                    res["inconclusive"].append((key, f"{pr.status}: {(pr.reason or '')[:100]}"))
                    continue
                text = holder["text"]
                w = text.concrete(pr.model) if isinstance(text, SymStr) else text
                valid, kinds, details, r = pr.value
                cvalid, cfails, cr = json_check(which, w, min_prefix)
                if cvalid != valid or cr != r or [f[0] for f in cfails] != kinds:
                    res["harness_errors"].append(f"C17 json path/concrete mismatch {key} {w!r}: {valid} {kinds} vs {cvalid} {[f[0] for f in cfails]}"[:500])
                    continue
                res["validated"] += 1
                res["accepting" if valid else "rejecting"] += 1
                if valid and len(res["samples"]) < 1:
                    res["samples"].append({"json_grammar": JSON_FILES[which], "document": w, "valid": True})
                if kinds:
                    vars_by_name = {symx.var_name(x): x for x in famcheck._vars_of(text)}
                    status, _o = core.classify_failure(pr.pc, regions.get(key), vars_by_name)
                    res["failures"].append(
                        {
                            "key": key,
                            "kind": ",".join(sorted(set(kinds))),
                            "detail": " | ".join(details)[:500],
                            "witness": w,
                            "pc": z3.simplify(core.pc_formula(pr.pc)).sexpr(),
                            "vars": sorted(vars_by_name),
                            "status": status,
                            "finding": regions.get(key, {}).get("finding") if status == "known" else None,
                            "replay": {"type": "c17_json", "module": "vf.props.c17", "grammar": which, "text": w},
                        }
                    )
        except symx.Inconclusive as e:
            res["inconclusive"].append((key, str(e)[:150]))
        core.absorb_engine(res, eng)
    return res


def _replay_json(spec):
    pestenv.REAL = True
    famcheck._COPY_A = None
    _JSON_MODES.clear()
    _v, fails, _r = json_check(spec["grammar"], spec["text"])
    return fails


replay_ext.HANDLERS["c17_json"] = _replay_json


# ---------------------------------------------------------------------------
# calculators


TABLE = {"+": (3, "L"), "-": (3, "L"), "*": (4, "L"), "/": (4, "L"), "^": (5, "R")}
PRE, POST = 6, 7  # unary minus, factorial (pratt.py / grammar_encoded_prec.pest)


def calc_tokens(text):
    """Independent tokenizer over str|SymStr -> list of (kind, value) or None (not in the language)."""
    toks = []
    i, n = 0, len(text)
    WSX = ((0x09, 0x0A), (0x0D, 0x0D), (0x20, 0x20))
    while i < n:
        if jsonref.cls(text, i, WSX):
            i += 1
            continue
        hit = None
        for op in "+-*/^!()":
            if jsonref.lit(text, i, op):
                hit = op
                break
        if hit:
            toks.append(("op", hit))
            i += 1
            continue
        if jsonref.cls(text, i, jsonref.DIGIT):
            j = i
            while jsonref.cls(text, j, jsonref.DIGIT):
                j += 1
            if j - i > 1 and jsonref.lit(text, i, "0"):
                return None  # leading zero
            toks.append(("int", text[i:j]))
            i = j
            continue
        if jsonref.cls(text, i, ((0x41, 0x5A), (0x61, 0x7A))):
            j = i
            while jsonref.cls(text, j, ((0x41, 0x5A), (0x61, 0x7A))):
                j += 1
            toks.append(("id", text[i:j]))
            i = j
            continue
        return None
    return toks


def calc_ref(toks):
    """Precedence climbing with the documented table -> shape tree or None."""
    pos = [0]

    def peek():
        return toks[pos[0]] if pos[0] < len(toks) else None

    def nxt():
        t = peek()
        pos[0] += 1
        return t

    def expr(minp):
        t = nxt()
        if t is None:
            return None
        if t == ("op", "-"):
            r = expr(PRE)
            if r is None:
                return None
            left = ("neg", r)
        elif t == ("op", "("):
            left = expr(0)
            if left is None or nxt() != ("op", ")"):
                return None
        elif t[0] in ("int", "id"):
            left = (t[0], t[1])
        else:
            return None
        while True:
            t = peek()
            if t is None or t[0] != "op":
                break
            if t[1] == "!":
                if POST < minp:
                    break
                nxt()
                left = ("fac", left)
                continue
            if t[1] in TABLE:
                p, assoc = TABLE[t[1]]
                if p < minp:
                    break
                nxt()
                r = expr(p if assoc == "R" else p + 1)
                if r is None:
                    return None
                left = (t[1], left, r)
                continue
            break
        return left

    r = expr(0)
    if r is None or pos[0] != len(toks):
        return None
    return r


def shape_of(e) -> tuple:
    n = type(e).__name__
    if n == "IntExpr":
        return ("int", str(e.value))
    if n == "VarExpr":
        return ("id", e.value)
    if n == "PrefixExpr":
        return ("neg", shape_of(e.right))
    if n == "PostfixExpr":
        return ("fac", shape_of(e.expr))
    if n == "InfixExpr":
        op = {"add": "+", "sub": "-", "mul": "*", "floordiv": "/", "pow": "^"}[e.op.__name__]
        return (op, shape_of(e.left), shape_of(e.right))
    return ("?", n)


def norm_shape(s):
    if s[0] in ("int", "id"):
        v = s[1]
        return (s[0], str(int(v)) if s[0] == "int" and isinstance(v, str) else v)
    return (s[0],) + tuple(norm_shape(x) for x in s[1:])


def eval_shape(s, env):
    k = s[0]
    if k == "int":
        return int(s[1])
    if k == "id":
        return env[s[1]]
    if k == "neg":
        return -eval_shape(s[1], env)
    if k == "fac":
        return math.factorial(eval_shape(s[1], env))
    a, b = eval_shape(s[1], env), eval_shape(s[2], env)
    if k == "+":
        return a + b
    if k == "-":
        return a - b
    if k == "*":
        return a * b
    if k == "/":
        return a // b
    return pow(a, b)


def _fmt(v) -> str:
    if v[0] == "v" and isinstance(v[1], int) and abs(v[1]) > 10**30:
        return f"('v', <{v[1].bit_length()}-bit integer>)"
    return str(v)


_CALC = None


def calculators():
    """Import the three example front ends against parser modules generated from the current tree."""
    global _CALC
    if _CALC is not None:
        return _CALC
    cp = famcheck.copy_a()
    base = os.path.join(pestenv.REPO, "examples", "calculator")
    with cp.active():
        for k in [k for k in sys.modules if k == "examples" or k.startswith("examples.")]:
            del sys.modules[k]
        for modname, pest_file in (("examples.calculator.parser", "calculator.pest"), ("examples.calculator.grammar_encoded_prec_parser", "grammar_encoded_prec.pest")):
            g = open(os.path.join(base, pest_file), encoding="utf-8").read()
            src = cp.pest.Parser.from_grammar(g).generate()
            m = types.ModuleType(modname)
            m.__package__ = "examples.calculator"
            exec(compile(src, modname.replace(".", "/") + ".py", "exec"), m.__dict__)  # noqa: S102
            importlib.import_module("examples.calculator")
            sys.modules[modname] = m
            setattr(sys.modules["examples.calculator"], modname.rsplit(".", 1)[1], m)
        pc = importlib.import_module("examples.calculator.prec_climber")
        pr = importlib.import_module("examples.calculator.pratt")
        ge = importlib.import_module("examples.calculator.grammar_encoded_prec")
    _CALC = {
        "prec_climber": lambda s: pc.parse_program(pc.parse(pc.Rule.PROGRAM, s)),
        "pratt": lambda s: pr.CalculatorParser().parse(s),
        "grammar_encoded": lambda s: ge.parse_program(ge.parse(ge.Rule.PROGRAM, s)),
    }
    return _CALC


ENVS = [{"x": 3, "y": 5, "z": 2}, {"x": -2, "y": 0, "z": 7}, {"x": 1, "y": 4, "z": -3}]


def calc_check(text):
    toks = calc_tokens(text)
    ref = calc_ref(toks) if toks is not None else None
    fails = []
    out = {}
    for name, fn in calculators().items():
        try:
            out[name] = ("OK", norm_shape(shape_of(fn(text))))
        except (symx.Unsupported, symx.Inconclusive):
            raise
        except Exception as e:  # noqa: BLE001
            out[name] = ("ERR", type(e).__name__)
    if ref is None:
        return False, fails, out
    want = norm_shape(ref)
    for name, r in out.items():
        if r[0] != "OK":
            fails.append((f"{name}:rejects-valid-expression", f"{name}: {r[1]} on an expression of the language"))
        elif r[1] != want:
            # a shape difference counts only if it changes the value for some operand valuation
            differs = False
            for env in ENVS:
                try:
                    a = ("v", eval_shape(r[1], env))
                except Exception as e:  # noqa: BLE001
                    a = ("e", type(e).__name__)
                try:
                    b = ("v", eval_shape(want, env))
                except Exception as e:  # noqa: BLE001
                    b = ("e", type(e).__name__)
                if a != b:
                    differs = True
                    fails.append((f"{name}:wrong-value", f"{name}: shape {r[1]} evaluates to {_fmt(a)} but the precedence table gives {want} = {_fmt(b)} (env {env})"))
                    break
            if not differs:
                pass
    return True, fails, out


@core.task_fn("c17_calc")
def run_calc(task: dict) -> dict:
    res = core.new_result(task["unit"])
    regions = task.get("regions", {})
    t_end = time.time() + task.get("budget_s", 200)
    for name, parts in task["texts"]:
        key = name
        eng = Engine()
        holder = {}

        def fn(e, parts=parts):
            sym = any(isinstance(p, int) for p in parts)
            text = SymStr.template(e, parts, hi=0x7F) if sym else "".join(parts)
            if isinstance(text, SymStr):
                for c in text.ch:
                    if not isinstance(c, int):
                        # operator / whitespace slots: not alphanumeric (operands stay concrete)
                        e.assume(z3.Not(z3.Or(z3.And(c >= 0x30, c <= 0x39), z3.And(c >= 0x41, c <= 0x5A), z3.And(c >= 0x61, c <= 0x7A))))
                if task.get("split"):
                    first = next(c for c in text.ch if not isinstance(c, int))
                    e.assume(first >= task["split"][0])
                    e.assume(first <= task["split"][1])
            holder["text"] = text
            valid, fails, out = calc_check(text)
            return valid, [f[0] for f in fails], [f[1] for f in fails], out

        try:
            for pr in eng.explore(fn, max_paths=task.get("max_paths", 20000), deadline=t_end):
                if pr.status != "ok":
                    res["inconclusive"].append((key, f"{pr.status}: {(pr.reason or '')[:100]}"))
                    continue
                text = holder["text"]
                w = text.concrete(pr.model) if isinstance(text, SymStr) else text
                valid, kinds, details, out = pr.value
                cvalid, cfails, cout = calc_check(w)
                if cvalid != valid or cout != out or [f[0] for f in cfails] != kinds:
                    res["harness_errors"].append(f"C17 calc path/concrete mismatch {key} {w!r}: {valid} {out} {kinds} vs {cvalid} {cout} {[f[0] for f in cfails]}"[:600])
                    continue
                res["validated"] += 1
                res["accepting" if valid else "rejecting"] += 1
                if valid and len(res["samples"]) < 1:
                    res["samples"].append({"expression": w, "shape": str(out.get("pratt"))[:150]})
                if kinds:
                    vars_by_name = {symx.var_name(x): x for x in famcheck._vars_of(text)}
                    status, _o = core.classify_failure(pr.pc, regions.get(key), vars_by_name)
                    res["failures"].append(
                        {
                            "key": key,
                            "kind": ",".join(sorted(set(kinds))),
                            "detail": " | ".join(details)[:500],
                            "witness": w,
                            "pc": z3.simplify(core.pc_formula(pr.pc)).sexpr(),
                            "vars": sorted(vars_by_name),
                            "status": status,
                            "finding": regions.get(key, {}).get("finding") if status == "known" else None,
                            "replay": {"type": "c17_calc", "module": "vf.props.c17", "text": w},
                        }
                    )
        except symx.Inconclusive as e:
            res["inconclusive"].append((key, str(e)[:150]))
        core.absorb_engine(res, eng)
    return res


def _replay_calc(spec):
    global _CALC
    pestenv.REAL = True
    famcheck._COPY_A = None
    _CALC = None
    _v, fails, _o = calc_check(spec["text"])
    return fails


replay_ext.HANDLERS["c17_calc"] = _replay_calc


SKELETONS = [
    ["1", 1, "2", 1, "3"],
    ["x", 1, "2", 1, "y", 1, "4"],
    ["2", 1, "3", 1, "2"],
    [1, "2", 1, "3"],
    ["3", 1, 1, "2"],
    ["(1", 1, "2)", 1, "3"],
    ["4", 1, "(x", 1, "2)"],
    ["3", 1, 1],
    [1, "3", 1],
    [1, 1, "x", 1, "2"],
    ["2", 1, "3", 1, 1, "4"],
    ["x", 1, "y", 1, "z", 1, "2", 1],
]
CONCRETE = ["1 - 2 - 3", "8/2/2", "2^3^2", "1! + 2", "-3!", "-2^2", "2*3!", "1+2*3", "(1+2)*3", "--2", "3!!", "1 + -2", "2 * -x ^ 2!", "-x!", "1-2*3-4", "2^2!", "x", "((x))", " 1\t+\n2 ", "10 / 3 * 3", "2 ^ 2 ^ 3 ! "]


def main(tier: str, seed: int, args) -> int:
    t0 = time.time()
    known = core.Known()
    famcheck.copy_a()
    try:
        ndocs = jsonref.selftest()
    except AssertionError as e:
        print("HARNESS-ERROR: JSON reference self-test failed:", e)
        return core.EXIT_HARNESS
    regions = known.regions_for("C17")
    tasks = []
    nmax = 4 if tier == "quick" else 6
    for which in JSON_FILES:
        for n in range(0, nmax + 1):
            if n <= 2:
                splits = [None]
            elif n <= 4:
                splits = [(a,) for a in SPLITS]
            else:
                splits = [(a, b) for a in SPLITS for b in SPLITS]
            for sp in splits:
                tag = "" if sp is None else "#" + "-".join(f"{lo:x}" for lo, _hi in sp)
                unit = f"json/{which}/whole-n{n}{tag}"
                tasks.append({"fn": "c17_json", "unit": unit, "grammar": which, "texts": [(unit, [n] if n else [""], sp, 0)], "budget_s": 250 if tier == "quick" else 2000, "max_paths": 200000})
        step = 3 if tier == "quick" else 1
        for di, d in enumerate(DOCS):
            for off in range(0, len(d), step):
                for w in (1,) if tier == "quick" else (1, 2):
                    unit = f"json/{which}/doc{di}@{off}w{w}"
                    tasks.append({"fn": "c17_json", "unit": unit, "grammar": which, "texts": [(unit, [d[:off], w, d[off + w :]], None, off + 1), (unit + "+ins", [d[:off], 1, d[off:]], None, off + 1)], "budget_s": 200})
            unit = f"json/{which}/doc{di}/concrete"
            tasks.append({"fn": "c17_json", "unit": unit, "grammar": which, "texts": [(unit, [d], None, 0)]})
    CSPLITS = [(0, 0x20), (0x21, 0x29), (0x2A, 0x2B), (0x2C, 0x2F), (0x3A, 0x60), (0x7B, 0x7F)]
    for si, sk in enumerate(SKELETONS):
        unit = f"calc/skeleton{si}"
        nslots = sum(1 for p in sk if isinstance(p, int))
        for sp in CSPLITS if nslots >= 4 else [None]:
            u = unit + (f"#{sp[0]:x}" if sp else "")
            tasks.append({"fn": "c17_calc", "unit": u, "split": sp, "texts": [(u, sk)], "budget_s": 250 if tier == "quick" else 1500})
        if tier == "thorough":
            # the same skeleton with a second symbolic character in every slot (operator + whitespace mixes)
            wide = [2 if isinstance(p, int) else p for p in sk]
            if sum(p for p in wide if isinstance(p, int)) <= 6:
                tasks.append({"fn": "c17_calc", "unit": unit + "/w2", "texts": [(unit + "/w2", wide)], "budget_s": 2000, "max_paths": 200000})
    tasks.append({"fn": "c17_calc", "unit": "calc/concrete", "texts": [(f"calc/concrete/{i}", [c]) for i, c in enumerate(CONCRETE)]})
    for t in tasks:
        t["regions"] = {k: v for k, v in regions.items() if any(k == name for name, *_ in t["texts"])}
    if args.only:
        tasks = [t for t in tasks if args.only in t["unit"]]
    print(f"C17 {tier}: {len(tasks)} units", flush=True)
    results = core.run_units(None, tasks, init=famcheck.copy_a)
    return core.finish(
        "C17",
        tier,
        seed,
        "model_checking",
        results,
        t0=t0,
        rule="JSON: one case = one joint path of the RFC 8259 reference and the bundled grammar (four modes) on a whole symbolic document (length <= %d) or a corpus document with a 1-2 character symbolic window; calculators: one case = one joint path of the reference tokenizer/precedence parser and the three front ends on a skeleton whose operator/whitespace slots are symbolic" % nmax,
        assumptions=[
            "JSON oracle = vf/jsonref.py (RFC 8259 recogniser returning spans), validated on every run against json.loads on %d generated documents" % ndocs,
            "only 'valid => accepted with mirroring tree' and 'proper prefix => rejected' are asserted (the statement does not require rejecting other invalid texts); prefixes shorter than a window's offset are checked once concretely",
            "calculator reference table: + - (3, left) < * / (4, left) < ^ (5, right) < unary minus (6) < ! (7), as declared in pratt.py and encoded in grammar_encoded_prec.pest; / is floor division",
            "a shape difference is a violation only if it changes the value (or the raised error) for one of three operand valuations",
            "calculator slots: one (thorough: two) symbolic non-alphanumeric ASCII character(s) per slot; operands concrete; the generated parser modules are regenerated in memory from the current tree",
        ],
        extra_cov={"json_reference_selftest_docs": ndocs},
        functions=["pest.parser.Parser.parse (+ generated modules) on examples/json/json.pest and tests/grammars/json.pest", "examples.calculator.prec_climber.parse_program/parse_expr", "examples.calculator.pratt.CalculatorParser (pest.pratt.PrattParser.parse_expr)", "examples.calculator.grammar_encoded_prec.parse_program"],
        bounds={"json_whole_len": nmax, "json_window": 1 if tier == "quick" else 2, "calc_skeletons": len(SKELETONS)},
        known=known,
    )
