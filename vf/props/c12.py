"""C12 - character terminals and escapes denote exactly the specified code points.

One symbolic code point (the solver ranges over all 1 114 112 values) per
terminal, four execution modes, against a specification written from the
definition; every regex pattern the modes compile is additionally compared with
the real engine on the whole code space (stub validation).  Escapes: the real
decoder runs on symbolic hex payloads.
"""

from __future__ import annotations

import itertools
import time

import z3

from .. import core, famcheck, pestenv, replay_ext, rxstub, symx
from ..family import ASCII_SETS
from ..symx import Engine, SymStr, in_intervals

BOUNDARY = [0x00, 0x20, 0x2D, 0x30, 0x39, 0x41, 0x5A, 0x5B, 0x5C, 0x5D, 0x5E, 0x5F, 0x61, 0x7A, 0x7B, 0x7F, 0x80, 0xFF,
            0x100, 0x17F, 0x212A, 0xD7FF, 0xE000, 0xFFFF, 0x10000, 0x10FFFF]  # fmt: skip


def norm(ivs):
    return rxstub._norm(ivs)


def spec_of(t):
    k = t[0]
    if k == "range":
        return [(t[1], t[2])]
    if k == "lit":
        return [(t[1], t[1])]
    if k == "ci":
        c = chr(t[1])
        return norm([(ord(c.lower()),) * 2, (ord(c.upper()),) * 2])
    if k == "builtin":
        if t[1] == "ANY":
            return [(0, symx.MAXCP)]
        return ASCII_SETS[t[1]]
    if k == "choice":
        return norm([iv for x in t[1] for iv in spec_of(x)])
    return None


def build_rules(t):
    """Return grammar(copy) -> {'r': GrammarRule} for a terminal spec."""

    def expr(cp, x):
        g = cp.modules["pest.grammar"]
        ex = cp.modules["pest.grammar.expressions"]
        k = x[0]
        if k == "range":
            return ex.Range(chr(x[1]), chr(x[2]))
        if k == "lit":
            return ex.String(chr(x[1]))
        if k == "ci":
            return ex.CIString(chr(x[1]))
        if k in ("builtin", "uprop", "newline"):
            name = "NEWLINE" if k == "newline" else x[1]
            return dict.__getitem__(cp.pest.Parser.BUILTIN, name)
        if k == "choice":
            return g.Choice(*[expr(cp, y) for y in x[1]])
        raise ValueError(x)

    def grammar(cp):
        GR = cp.modules["pest.grammar.rule"].GrammarRule
        return {"r": GR("r", expr(cp, t), 0)}

    return grammar


def describe(t):
    k = t[0]
    if k == "range":
        return f"'U+{t[1]:04X}'..'U+{t[2]:04X}'"
    if k == "lit":
        return f'"U+{t[1]:04X}"'
    if k == "ci":
        return f'^"{chr(t[1])}"'
    if k in ("builtin", "uprop"):
        return t[1]
    if k == "newline":
        return "NEWLINE"
    return "(" + " | ".join(describe(x) for x in t[1]) + ")"


def expected(t, text, e=None):
    """Specified result for input text (str or SymStr): ("OK", end) | ("FAIL",) | None (no spec)."""
    n = len(text)
    if t[0] == "newline":
        def is_(i, v):
            ch = text[i]
            return ch == chr(v)
        if n >= 1 and is_(0, 0x0A):
            return ("OK", 1)
        if n >= 2 and is_(0, 0x0D) and is_(1, 0x0A):
            return ("OK", 2)
        if n >= 1 and is_(0, 0x0D):
            return ("OK", 1)
        return ("FAIL",)
    sp = spec_of(t)
    if sp is None:
        return None
    if n == 0:
        return ("FAIL",)
    c0 = text.ch[0] if isinstance(text, SymStr) else ord(text[0])
    cond = in_intervals(c0, tuple(sp))
    ok = cond if isinstance(cond, bool) else symx.engine().branch(cond)
    return ("OK", 1) if ok else ("FAIL",)


def judge(t, res: dict, want) -> list:
    out = []
    shapes = {}
    for m, r in res.items():
        if r[0] == "OK":
            tree = r[1]
            shapes[m] = ("OK", tree[0][2]) if len(tree) == 1 and tree[0][0] == "r" and tree[0][1] == 0 and not tree[0][4] else ("ODD", str(tree))
        elif r[0] == "FAIL":
            shapes[m] = ("FAIL",)
        else:
            shapes[m] = r
    if len(set(shapes.values())) > 1:
        out.append(("modes-differ", str(shapes)))
    if want is not None:
        for m, s in shapes.items():
            if s != want:
                out.append((f"{m}:spec", f"{describe(t)}: {m} gives {s}, definition says {want}"))
                break
    return out


@core.task_fn("c12_term")
def run_term(task: dict) -> dict:
    res = core.new_result(task["unit"])
    regions = task.get("regions", {})
    for t in task["terms"]:
        t = _tup(t)
        ascii_only = _has_ci(t)
        try:
            modes = famcheck.Modes(build_rules(t), ["I", "G", "IO", "GO"])
        except (symx.Unsupported, symx.Inconclusive) as e:
            res["inconclusive"].append((describe(t), str(e)))
            continue
        # case-insensitive literals: the definition is stated for ASCII input; on the whole code space
        # (second pass, "u") only "all four modes agree" is claimed
        spec_ok = not _ci_nonascii(t)  # a case-insensitive non-ASCII literal has no stated definition: modes-equal only
        passes = [(n, ascii_only, spec_ok) for n in (0, 1, 2)] + ([(n, False, False) for n in (1, 2)] if ascii_only else [])
        for n, ascii_pass, with_spec in passes:
            key = f"{describe(t)}|n{n}" + ("" if ascii_pass or not ascii_only else "u")
            eng = Engine()
            holder = {}

            def fn(e, n=n, t=t, ascii_pass=ascii_pass, with_spec=with_spec):
                text = SymStr.fresh(e, n, hi=0x7F if ascii_pass else symx.MAXCP) if n else ""
                holder["text"] = text
                r = {m: pestenv.run_parse(p, "r", text) for m, p in modes.parsers.items()}
                for m, err in modes.errors.items():
                    r[m] = ("BUILD-EXC", err)
                return r, judge(t, r, expected(t, text) if with_spec else None)

            try:
                for pr in eng.explore(fn, max_paths=5000):
                    if pr.status != "ok":
                        res["inconclusive"].append((key, f"{pr.status}: {pr.reason}"))
                        continue
                    text = holder["text"]
                    w = text.concrete(pr.model) if isinstance(text, SymStr) else text
                    r, fails = pr.value
                    cr = {m: pestenv.run_parse(p, "r", w) for m, p in modes.parsers.items()}
                    for m, err in modes.errors.items():
                        cr[m] = ("BUILD-EXC", err)
                    if cr != r:
                        res["harness_errors"].append(f"C12 path/concrete mismatch {key} {w!r}: {r} vs {cr}")
                        continue
                    res["validated"] += 1
                    res["accepting" if next(iter(r.values()))[0] == "OK" else "rejecting"] += 1
                    if len(res["samples"]) < 1 and n == 1:
                        res["samples"].append({"terminal": describe(t), "code_point": f"U+{ord(w[0]):04X}", "result": str(next(iter(r.values()))[0])})
                    if fails:
                        vars_by_name = {symx.var_name(v): v for v in famcheck._vars_of(text)}
                        status, other = core.classify_failure(pr.pc, regions.get(key), vars_by_name)
                        res["failures"].append(
                            {
                                "key": key,
                                "kind": ",".join(sorted({f[0] for f in fails})),
                                "detail": " | ".join(f[1] for f in fails)[:500],
                                "witness": w,
                                "pc": z3.simplify(core.pc_formula(pr.pc)).sexpr(),
                                "vars": sorted(vars_by_name),
                                "status": status,
                                "finding": regions.get(key, {}).get("finding") if status == "known" else None,
                                "replay": {"type": "c12_term", "module": "vf.props.c12", "term": t, "text": w},
                            }
                        )
            except symx.Inconclusive as e:
                res["inconclusive"].append((key, str(e)))
            core.absorb_engine(res, eng)
    # stub validation: every pattern the modes compiled, against the real engine
    for pat, flags in sorted(rxstub.STATS["patterns"]):
        try:
            rxstub.validate(pat, flags, ascii_only=False)
        except AssertionError as e:
            res["harness_errors"].append(f"regex stub validation: {e}")
        except symx.Unsupported as e:
            res["inconclusive"].append((f"stub {pat!r}", str(e)))
    res["stub_patterns"] = len(rxstub.STATS["patterns"])
    return res


def _tup(x):
    if isinstance(x, list):
        return tuple(_tup(i) for i in x)
    return x


def _ci_nonascii(t):
    return (t[0] == "ci" and t[1] > 0x7F) or (t[0] == "choice" and any(_ci_nonascii(x) for x in t[1]))


def _has_ci(t):
    return t[0] == "ci" or (t[0] == "choice" and any(_has_ci(x) for x in t[1]))


def _replay_term(spec):
    pestenv.REAL = True
    t = _tup(spec["term"])
    modes = famcheck.Modes(build_rules(t), ["I", "G", "IO", "GO"])
    r = {m: pestenv.run_parse(p, "r", spec["text"]) for m, p in modes.parsers.items()}
    for m, err in modes.errors.items():
        r[m] = ("BUILD-EXC", err)
    with_spec = (not _has_ci(t) or spec["text"].isascii()) and not _ci_nonascii(t)
    return judge(t, r, expected(t, spec["text"]) if with_spec else None)


replay_ext.HANDLERS["c12_term"] = _replay_term


# ---------------------------------------------------------------------------
# escapes


FIXED = {"n": 0x0A, "r": 0x0D, "t": 0x09, "\\": 0x5C, '"': 0x22, "'": 0x27, "0": 0x00}


def _patched_unescape(cp):
    un = cp.modules["pest.grammar.unescape"]
    un.int = symx.sym_int
    un.chr = symx.sym_chr
    un.ord = symx.sym_ord
    if isinstance(getattr(un, "HEX_DIGITS", None), frozenset):
        un.HEX_DIGITS = pestenv.SymAwareSet(un.HEX_DIGITS)
    return un


def _joinable_unescape(cp):
    """unescape_string recompiled from its CURRENT source with the one C call that rejects proxies - "".join(...) -
    replaced by the equivalent symx.sym_join(...) (a mechanical, harness-side rewrite; nothing else changes).
    Returns None when the source has no such call to rewrite."""
    import __future__
    import inspect

    un = _patched_unescape(cp)
    try:
        src = inspect.getsource(un.unescape_string)
    except (OSError, TypeError):
        return None
    if '"".join(' not in src:
        return None
    ns = un.__dict__
    ns["_vf_join"] = symx.sym_join
    exec(compile(src.replace('"".join(', "_vf_join("), un.__file__, "exec", flags=__future__.annotations.compiler_flag), ns)  # noqa: S102
    return un


def esc_spec(kind: str, payload) -> tuple:
    """Specified decoding of an escape payload (tuple of code point terms/ints): ("OK", value-term) | ("ERR",)."""
    e = symx.engine()
    HEX = ((0x30, 0x39), (0x41, 0x46), (0x61, 0x66))
    total = 0
    for c in payload:
        ok = in_intervals(c, HEX)
        if not (ok if isinstance(ok, bool) else e.branch(ok)):
            return ("ERR",)
        d = int(chr(c), 16) if isinstance(c, int) else z3.If(c <= 0x39, c - 0x30, z3.If(c <= 0x46, c - 0x37, c - 0x57))
        total = total * 16 + d
    if kind == "u" and not 2 <= len(payload) <= 6:
        return ("ERR",)
    if kind == "u":
        big = total > symx.MAXCP
        if big if isinstance(big, bool) else e.branch(big):
            return ("ERR",)
    return ("OK", total)


@core.task_fn("c12_esc")
def run_esc(task: dict) -> dict:
    """_decode_escape_sequence on 'x'+2 / 'u{'+k+'}' symbolic payload characters."""
    kind, k = task["kind"], task["k"]
    res = core.new_result(task["unit"])
    cp = pestenv.load_copy()
    un = _patched_unescape(cp)
    Tok = cp.modules["pest.grammar.tokens"]
    SynErr = cp.pest.PestGrammarSyntaxError
    eng = Engine()
    holder = {}
    key = f"{kind}{k}"

    def call(value):
        tok = Tok.Token(Tok.TokenKind.STRING, "", 0, "")
        try:
            ch, idx = un._decode_escape_sequence(value, 0, tok, '"')
        except SynErr:
            return ("ERR",)
        except (symx.Unsupported, symx.Inconclusive):
            raise
        except Exception as ex:  # noqa: BLE001
            return ("EXC", type(ex).__name__)
        return ("OK", ch, idx)

    def fn(e):
        parts = ["x", k] if kind == "x" else ["u{", k, "}"]
        value = SymStr.template(e, parts + ["Z"])
        for c in value.ch:
            if not isinstance(c, int):
                e.assume(c != 0x7D)  # a '}' inside the payload would end the escape earlier
        holder["value"] = value
        got = call(value)
        payload = [c for c in value.ch if not isinstance(c, int)]
        want = esc_spec(kind, payload)
        fails = []
        last = len(value) - 2  # index of the last character of the escape
        if want[0] == "ERR":
            if got[0] != "ERR":
                fails.append(("accepts-invalid", f"payload not valid but decoder returned {got[0]}"))
        else:
            if got[0] != "OK":
                fails.append(("rejects-valid", f"valid payload: decoder gave {got}"))
            else:
                ch = got[1]
                cv = symx.sym_ord(ch) if len(ch) == 1 else None
                t = cv.t if isinstance(cv, symx.SymInt) else cv
                same = (t == want[1]) if not (isinstance(t, int) and isinstance(want[1], int)) else z3.BoolVal(t == want[1])
                if cv is None or not e.implied(same):
                    fails.append(("wrong-code-point", f"decoded value differs from the hex payload value"))
                if got[2] != last:
                    fails.append(("wrong-length", f"escape reported to end at {got[2]}, ends at {last}"))
        return got[0], fails

    try:
        for pr in eng.explore(fn, max_paths=60000):
            if pr.status != "ok":
                res["inconclusive"].append((key, f"{pr.status}: {pr.reason}"))
                continue
            value = holder["value"].concrete(pr.model)
            cgot = _esc_concrete(un, Tok, SynErr, value)
            if cgot[0] != pr.value[0]:
                res["harness_errors"].append(f"C12 escape path/concrete mismatch {value!r}: {pr.value} vs {cgot}")
                continue
            res["validated"] += 1
            res["accepting" if pr.value[0] == "OK" else "rejecting"] += 1
            if len(res["samples"]) < 1 and pr.value[0] == "OK":
                res["samples"].append({"escape": "\\" + value[:-1], "decoded": f"U+{ord(cgot[1]):04X}"})
            if pr.value[1]:
                res["failures"].append(
                    {
                        "key": key,
                        "kind": ",".join(f[0] for f in pr.value[1]),
                        "detail": " | ".join(f[1] for f in pr.value[1]),
                        "witness": "\\" + value,
                        "pc": z3.simplify(core.pc_formula(pr.pc)).sexpr(),
                        "vars": sorted(symx.var_name(v) for v in famcheck._vars_of(holder["value"])),
                        "status": "new",
                        "finding": None,
                        "replay": {"type": "c12_esc", "module": "vf.props.c12", "value": value},
                    }
                )
    except symx.Inconclusive as e:
        res["inconclusive"].append((key, str(e)))
    core.absorb_engine(res, eng)
    return res


def _esc_concrete(un, Tok, SynErr, value):
    tok = Tok.Token(Tok.TokenKind.STRING, "", 0, "")
    try:
        ch, idx = un._decode_escape_sequence(value, 0, tok, '"')
    except SynErr:
        return ("ERR",)
    except Exception as ex:  # noqa: BLE001
        return ("EXC", type(ex).__name__)
    return ("OK", ch, idx)


def esc_reference(value: str):
    """Concrete reference decoding of one escape body followed by 'Z'."""
    body = value[:-1]
    hexd = "0123456789abcdefABCDEF"
    if body[0] == "x":
        d = body[1:]
        if len(d) == 2 and all(c in hexd for c in d):
            return ("OK", chr(int(d, 16)), len(body) - 1)
        return ("ERR",)
    if body[0] == "u":
        d = body[2:-1]
        if body[1] == "{" and body[-1] == "}" and 2 <= len(d) <= 6 and all(c in hexd for c in d) and int(d, 16) <= 0x10FFFF:
            return ("OK", chr(int(d, 16)), len(body) - 1)
        return ("ERR",)
    if body in FIXED:
        return ("OK", chr(FIXED[body]), 0)
    return ("ERR",)


def _replay_esc(spec):
    cp = pestenv.load_copy()
    un = cp.modules["pest.grammar.unescape"]
    Tok = cp.modules["pest.grammar.tokens"]
    got = _esc_concrete(un, Tok, cp.pest.PestGrammarSyntaxError, spec["value"])
    want = esc_reference(spec["value"])
    return [] if got == want else [("escape", f"decoder {got} reference {want}")]


replay_ext.HANDLERS["c12_esc"] = _replay_esc


SEQ_ESCAPES = [("\\n", 0x0A), ("\\r", 0x0D), ("\\t", 0x09), ("\\\\", 0x5C), ('\\"', 0x22), ("\\'", 0x27), ("\\0", 0x00), ("\\x41", 0x41), ("\\u{41}", 0x41)]


def _seq_call(un, Tok, SynErr, value):
    tok = Tok.Token(Tok.TokenKind.STRING, "", 0, "")
    try:
        return ("OK", un.unescape_string(value, tok, quote='"'))
    except SynErr:
        return ("ERR",)
    except (symx.Unsupported, symx.Inconclusive):
        raise
    except Exception as ex:  # noqa: BLE001
        if "SymStr" in str(ex) or "SymInt" in str(ex):
            raise symx.Unsupported(f"proxy leak: {type(ex).__name__}: {ex}") from ex
        return ("EXC", type(ex).__name__)


@core.task_fn("c12_seq")
def run_seq(task: dict) -> dict:
    """unescape_string on SEQUENCES: escape, an arbitrary plain character, escape - decoding is left to right, so the
    result is the concatenation of what each piece denotes (an escaped backslash followed by 'n' is not a line feed)."""
    res = core.new_result(task["unit"])
    cp = pestenv.load_copy()
    un = _joinable_unescape(cp)
    if un is None:
        res["inconclusive"].append((task["unit"], "unescape_string has no \"\".join(...) to rewrite: sequences of escapes cannot be run on proxies"))
        return res
    Tok = cp.modules["pest.grammar.tokens"]
    SynErr = cp.pest.PestGrammarSyntaxError
    for name, parts, want_cps in task["shapes"]:
        eng = Engine()
        holder = {}

        def fn(e, parts=parts, want_cps=want_cps):
            value = SymStr.template(e, parts)
            syms = [c for c in value.ch if not isinstance(c, int)]
            for c in syms:
                e.assume(c != 0x5C)  # a plain character: not a backslash,
                e.assume(c != 0x22)  # not the closing quote
            holder["value"] = value
            got = _seq_call(un, Tok, SynErr, value)
            fails = []
            if got[0] != "OK":
                fails.append(("sequence-rejected", f"valid literal: unescape_string gave {got}"))
            else:
                it = iter(syms)
                want = SymStr(tuple(next(it) if w is None else w for w in want_cps))
                r = got[1]
                if len(r) != len(want) or not famcheck._same_chars(r, want):
                    fails.append(("sequence-denotation", "the decoded text is not the concatenation of what its pieces denote"))
            return got[0], fails

        try:
            for pr in eng.explore(fn, max_paths=2000):
                if pr.status != "ok":
                    res["inconclusive"].append((name, f"{pr.status}: {pr.reason}"))
                    continue
                w = holder["value"].concrete(pr.model)
                cfails = _seq_replay({"value": w})
                if bool(cfails) != bool(pr.value[1]):
                    res["harness_errors"].append(f"C12 sequence path/concrete mismatch {w!r}: {pr.value} vs {cfails}")
                    continue
                res["validated"] += 1
                res["accepting"] += 1
                if pr.value[1]:
                    res["failures"].append(
                        {"key": name, "kind": ",".join(f[0] for f in pr.value[1]), "detail": " | ".join(f[1] for f in pr.value[1])[:300], "witness": w, "pc": "true", "vars": [],
                         "status": "new", "finding": None, "replay": {"type": "c12_seq", "module": "vf.props.c12", "value": w}}
                    )
        except symx.Inconclusive as e:
            res["inconclusive"].append((name, str(e)))
        core.absorb_engine(res, eng)
    return res


def _seq_reference(value: str) -> str:
    """Left-to-right decoding of a literal made of the SEQ_ESCAPES forms and plain characters."""
    out, i = [], 0
    while i < len(value):
        if value[i] != "\\":
            out.append(value[i])
            i += 1
            continue
        for esc, cpt in SEQ_ESCAPES:
            if value.startswith(esc, i):
                out.append(chr(cpt))
                i += len(esc)
                break
        else:
            raise ValueError(value)
    return "".join(out)


def _seq_replay(spec):
    cp = pestenv.load_copy()
    un = cp.modules["pest.grammar.unescape"]
    Tok = cp.modules["pest.grammar.tokens"]
    got = _seq_call(un, Tok, cp.pest.PestGrammarSyntaxError, spec["value"])
    want = _seq_reference(spec["value"])
    if got[0] != "OK":
        return [("sequence-rejected", str(got))]
    return [] if got[1] == want else [("sequence-denotation", f"decoded {got[1]!r}, denotes {want!r}")]


replay_ext.HANDLERS["c12_seq"] = _seq_replay


@core.task_fn("c12_e2e")
def run_e2e(task: dict) -> dict:
    """Concrete end-to-end: every fixed escape form and boundary \\x / \\u values through from_grammar."""
    res = core.new_result(task["unit"])
    cp = famcheck.copy_a()
    cases = []
    for k, v in FIXED.items():
        cases.append(("\\" + k, chr(v)))
    for v in (0x00, 0x0A, 0x22, 0x41, 0x5C, 0x7F, 0x80, 0xFF):
        cases.append(("\\x%02x" % v, chr(v)))
        cases.append(("\\x%02X" % v, chr(v)))
    for v in BOUNDARY:
        for w in (2, 3, 4, 5, 6):
            s = "%0*x" % (w, v)
            if len(s) == w:
                cases.append(("\\u{%s}" % s, chr(v)))
    for esc, want in cases:
        for ctx in ("string", "char", "ci", "pushlit"):
            if ctx == "char":
                if esc == '\\"':
                    continue
                g = f"r = {{ '{esc}'..'{esc}' }}"
            elif ctx == "string":
                if esc == "\\'":
                    continue
                g = f'r = {{ "a{esc}b" }}'
            elif ctx == "ci":
                if esc == "\\'":
                    continue
                g = f'r = {{ ^"a{esc}b" }}'
            else:
                if esc == "\\'":
                    continue
                g = f'r = {{ PUSH_LITERAL("a{esc}b") }}'
            res["paths"] += 1
            res["accepting"] += 1
            try:
                p = cp.parser(g)
                ex = p.rules["r"].expression
                got = (ex.start, ex.stop) if ctx == "char" else ex.value
                exp = (want, want) if ctx == "char" else "a" + want + "b"
                if got != exp:
                    raise AssertionError(f"decoded {got!r}, pest defines {exp!r}")
                res["validated"] += 1
            except Exception as e:  # noqa: BLE001
                res["failures"].append(
                    {
                        "key": f"{ctx}:{esc}",
                        "kind": "escape-e2e",
                        "detail": f"{g!r}: {type(e).__name__}: {str(e)[:200]}",
                        "witness": g,
                        "pc": "true",
                        "vars": [],
                        "status": _known_e2e(task, f"{ctx}:{esc}"),
                        "finding": (task.get("regions", {}).get(f"{ctx}:{esc}") or {}).get("finding"),
                        "replay": {"type": "c12_e2e", "module": "vf.props.c12", "grammar": g, "ctx": ctx, "want": want},
                    }
                )
    res["samples"].append({"escape_form": cases[3][0], "means": repr(cases[3][1])})
    return res


def _known_e2e(task, key):
    return "known" if key in task.get("regions", {}) else "new"


def _replay_e2e(spec):
    cp = pestenv.load_copy()
    try:
        p = cp.parser(spec["grammar"])
        ex = p.rules["r"].expression
        want = spec["want"]
        got = (ex.start, ex.stop) if spec["ctx"] == "char" else ex.value
        exp = (want, want) if spec["ctx"] == "char" else "a" + want + "b"
        return [] if got == exp else [("escape-e2e", f"{got!r} != {exp!r}")]
    except Exception as e:  # noqa: BLE001
        return [("escape-e2e", f"{type(e).__name__}: {e}")]


replay_ext.HANDLERS["c12_e2e"] = _replay_e2e


# ---------------------------------------------------------------------------


def terminals(tier: str, seed: int):
    ts = []
    for lo, hi in itertools.combinations_with_replacement(BOUNDARY, 2):
        ts.append(("range", lo, hi))
    for lo, hi in [(0x7A, 0x61), (0x39, 0x30), (0x10FFFF, 0x0), (0x62, 0x61)]:
        ts.append(("range", lo, hi))  # empty ranges never match
    for c in BOUNDARY:
        ts.append(("lit", c))
    for name in ASCII_SETS:
        ts.append(("builtin", name))
    ts.append(("builtin", "ANY"))
    ts.append(("newline",))
    letters = [ord(c) for c in "abcdefghijklmnopqrstuvwxyzABCDEFGHIJKLMNOPQRSTUVWXYZ"]
    for c in letters if tier == "thorough" else letters[::5] + [ord("k"), ord("K"), ord("s"), ord("S"), ord("i"), ord("I")]:
        ts.append(("ci", c))
    for c in (0xDF, 0xE9, 0x3A3, 0x212A, 0x130, 0x1E9E):  # sharp s, e acute, sigma (three case variants), Kelvin sign, dotted I
        ts.append(("ci", c))
    R = lambda a, b: ("range", ord(a), ord(b))  # noqa: E731
    L = lambda a: ("lit", ord(a))  # noqa: E731
    mixes = [
        [R("a", "c"), R("d", "f")], [R("a", "d"), R("c", "h")], [R("a", "z"), R("c", "d")], [R("a", "c"), R("e", "g")],
        [R("a", "c"), L("d")], [L("d"), R("a", "c")], [L("a"), L("b"), L("c")], [L("]"), L("a")], [L("-"), L("a")],
        [L("^"), L("a")], [L("\\"), L("a")], [L("a"), L("-"), L("z")], [R("[", "]"), L("^")], [R("+", "-"), L("]")],
        [R("\\", "^"), L("-")], [L("["), L("]")], [R("0", "9"), L("_"), R("a", "f")], [R("\x00", "\x1f"), L("\x7f")],
        [("ci", 0xDF), R("a", "z")], [("ci", ord("s")), L("x")], [L("x"), ("ci", ord("i")), ("ci", ord("k"))], [("ci", 0x212A), L("x")], [("ci", 0xE9), L("x")], [("ci", 0x3A3), R("0", "9")],
        [("ci", ord("a")), L("b")], [("ci", ord("k")), R("0", "9")], [L("a"), ("ci", ord("A"))], [("ci", ord("z")), ("ci", ord("y"))],
        [R("a", "c"), R("à", "å")], [L("K"), L("k")], [R("퟾", "퟿"), R("", "")],
        [R("￿", "\U00010000"), L("\U0010ffff")], [L(" "), L("\t"), L("\n"), L("\r")], [R("z", "z"), R("a", "a")],
        [R("b", "y"), L("a"), L("z")], [R("z", "a"), L("x")], [R("z", "a"), R("y", "b")], [R("a", "c"), R("z", "m"), L("q")], [L("{"), L("}"), L("|")], [L("."), L("*"), L("+"), L("?")], [L("("), L(")"), L("$")],
    ]
    for m in mixes:
        ts.append(("choice", tuple(m)))
    # every ordered pair of ranges over a 5-point set (incl. empty and one-point ranges): all
    # relative positions the merge in _optimize_char_class can meet; thorough adds a literal
    pts = [ord(c) for c in "acdeg"]
    rs = [("range", lo, hi) for lo in pts for hi in pts]
    step = 1 if tier == "thorough" else 3
    pairs = [(a, b) for a in rs for b in rs]
    for i, (a, b) in enumerate(pairs):
        if i % step == 0:
            ts.append(("choice", (a, b)))
        if tier == "thorough" and i % 5 == 0:
            ts.append(("choice", (a, ("lit", ord("d")), b)))
    return ts


def uprops(tier: str):
    cp = famcheck.copy_a()
    names = sorted(cp.modules["pest.grammar.rules.unicode"].UNICODE_RULES)
    if tier == "quick":
        names = names[::6]
    return [("uprop", n) for n in names]


def canary() -> bool:
    """The pinned defect 'generated ranges compiled with re.I' must be detected."""
    cp = famcheck.copy_a()
    T = cp.modules["pest.grammar.expressions.terminals"]
    orig = T.Range.generate

    def bad_generate(self, gen, matched_var, pairs_var):
        import regex as re

        pattern = rf"[{re.escape(self.start)}-{re.escape(self.stop)}]"
        re_var = gen.constant("RE", f"re.compile({pattern!r}, re.I)")
        gen.writeln(f"if match := {re_var}.match(state.input, state.pos):")
        with gen.block():
            gen.writeln("state.pos = match.end()")
            gen.writeln(f"{matched_var} = True")
        gen.writeln("else:")
        with gen.block():
            gen.writeln(f"{matched_var} = False")

    T.Range.generate = bad_generate
    try:
        r = run_term({"unit": "canary", "terms": [("range", 0x61, 0x7A)]})
    finally:
        T.Range.generate = orig
    return any("modes-differ" in f["kind"] or "spec" in f["kind"] for f in r["failures"])


def main(tier: str, seed: int, args) -> int:
    t0 = time.time()
    known = core.Known()
    famcheck.copy_a()
    if not canary():
        print("HARNESS-ERROR: canary (generated range with re.I) not detected")
        return core.EXIT_HARNESS
    regions = known.regions_for("C12")
    ts = terminals(tier, seed) + uprops(tier)
    tasks = []
    chunk = 8
    for i in range(0, len(ts), chunk):
        unit = f"term/{i // chunk:04d}"
        tasks.append({"fn": "c12_term", "unit": unit, "terms": ts[i : i + chunk], "regions": {k[len(unit) + 1 :]: v for k, v in regions.items() if k.startswith(unit + "|")}})
    tasks.append({"fn": "c12_esc", "unit": "esc/x2", "kind": "x", "k": 2})
    for k in range(1, (5 if tier == "quick" else 7) + 1):
        tasks.append({"fn": "c12_esc", "unit": f"esc/u{k}", "kind": "u", "k": k})
    shapes = []
    for e1, c1 in SEQ_ESCAPES:
        shapes.append((f"{e1}+c", [e1, 1], [c1, None]))
        shapes.append((f"c+{e1}", [1, e1], [None, c1]))
        for e2, c2 in SEQ_ESCAPES:
            shapes.append((f"{e1}+c+{e2}", [e1, 1, e2], [c1, None, c2]))
            shapes.append((f"{e1}+{e2}+c", [e1, e2, 1], [c1, c2, None]))
    for i in range(0, len(shapes), 30):
        tasks.append({"fn": "c12_seq", "unit": f"esc/seq{i // 30:02d}", "shapes": shapes[i : i + 30]})
    tasks.append({"fn": "c12_e2e", "unit": "esc/e2e", "regions": {k[len("esc/e2e") + 1 :]: v for k, v in regions.items() if k.startswith("esc/e2e|")}})
    if args.only:
        tasks = [t for t in tasks if args.only in t["unit"]]
    print(f"C12 {tier}: {len(ts)} terminals, {len(tasks)} units", flush=True)
    results = core.run_units(None, tasks, init=famcheck.copy_a)
    return core.finish(
        "C12",
        tier,
        seed,
        "model_checking",
        results,
        t0=t0,
        rule="one case = one feasible path (a class of code points) of a one-terminal grammar in four modes on a symbolic 0/1/2-character input, judged against the terminal's definition; escapes: one case = one class of hex payloads through the real decoder; all cases are distinct solver-feasible classes",
        assumptions=[
            "terminals are built with the public Parser(rules, optimizer=...) constructor from the library's own expression classes (the grammar front end is C10's subject); escapes also go end-to-end through from_grammar on concrete forms",
            "case-insensitive literals: ASCII letters, input constrained to ASCII (statement); Unicode property rules: cross-mode equality only (statement)",
            "regex model validated against the real engine on all 1 114 112 code points for every single-character pattern compiled by the modes, every run",
            "escape decoding: builtins int/chr are replaced in the unescape module's namespace by symbolic-aware versions (environment model, validated by the concrete re-run of every path)",
            "\\u escapes: 1..5 (quick) / 1..7 (thorough) payload characters",
        ],
        extra_cov={"terminals": len(ts), "stub_patterns_validated": sum(r.get("stub_patterns", 0) for r in results)},
        functions=["pest.grammar.expressions.terminals.{Range,String,CIString}.parse/generate", "pest.grammar.expressions.choice.{OptimizedChoice,build_optimized_pattern,_optimize_char_class}", "pest.grammar.rules.{ascii,special,unicode}", "pest.grammar.optimizers.squash_choice", "pest.grammar.unescape.{_decode_escape_sequence,_decode_hex_char,_parse_hex_digits,unescape_string}"],
        bounds={"input_len": 2, "code_points": "all 0..0x10FFFF (symbolic)", "range_endpoints": len(BOUNDARY)},
        known=known,
    )
