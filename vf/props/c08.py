"""C08 - meaning-preserving grammar rewrites leave every parse result unchanged.

Enumerated: bundled grammar x sub-expression site x rewrite kind (applied on
python-pest's own Expression tree of a fresh parse and passed to the public
Parser(rules, optimizer=...) constructor).  Symbolic: a window of characters in
corpus inputs, and whole short inputs.  Original and rewritten grammar run on
the same symbolic characters in the same mode; per joint path outcome and tree
must be equal.
"""

from __future__ import annotations

import glob
import json
import os
import random
import time

import z3

from .. import core, famcheck, pestenv, replay_ext, symx
from ..symx import Engine, SymStr

NEVER = "\U0010ffff\U0010fffe"
STACK_RULES = {"children", "lists", "lines", "line"}
KINDS = ["group", "reassocL", "reassocR", "extract", "dup", "never", "notnever"]
# combinations: kind A at the site, then kind B at a path relative to the node A produced
COMBOS = ["never+extract@0.0", "notnever+extract@0.0", "dup+extract@0.0", "dup+extract@0.1", "never+extract@0.1", "group+never@0", "extract+never@", "never+dup@0.1", "group+group@0",
          "never+dup@0.0.0", "never+never@0.0.0", "notnever+dup@0.0.0.0", "dup+never@0.0", "dup+dup@0.1", "notnever+never@0.1"]
HERE = os.path.dirname(os.path.dirname(os.path.dirname(os.path.abspath(__file__))))


def grammar_files():
    return sorted(glob.glob(os.path.join(pestenv.REPO, "tests/grammars/*.pest")) + glob.glob(os.path.join(pestenv.REPO, "examples/*/*.pest")))


def corpus():
    doc = json.load(open(os.path.join(HERE, "golden", "corpus.json")))
    extra = {
        "tests/grammars/meta.pest": [{"rule": "grammar_rules", "text": 'r = { "a" ~ b* | !c }'}, {"rule": "grammar_rules", "text": "//! d\nr = @{ 'a'..'z'{2,3} }"}, {"rule": "expression", "text": "a | b ~ PUSH(c)?"}],
        "tests/grammars/grammar.pest": [{"rule": "node_tag", "text": "abc"}],  # the one tagged rule of the bundled grammars
        "tests/grammars/sql.pest": [],
        "tests/grammars/http.pest": [{"rule": "http", "text": "GET / HTTP/1.1\r\nHost: x\r\n\r\n"}],
        "tests/grammars/surround.pest": [],
    }
    for k, v in extra.items():
        doc.setdefault(k, []).extend(v)
    return doc


def sites(cp, expr, path=()):
    Rule = cp.modules["pest.grammar.rule"].Rule
    yield path, expr
    if isinstance(expr, Rule):
        return
    for i, c in enumerate(expr.children()):
        yield from sites(cp, c, path + (i,))


def rewrite_at(expr, path, fn):
    if not path:
        return fn(expr)
    kids = list(expr.children())
    kids[path[0]] = rewrite_at(kids[path[0]], path[1:], fn)
    return expr.with_children(kids)


def make_rewrite(cp, kind: str, rules: dict, name: str = "xr_extracted"):
    g = cp.modules["pest.grammar"]
    ex = cp.modules["pest.grammar.expressions"]
    rl = cp.modules["pest.grammar.rule"]

    def never():
        return ex.String(NEVER)

    def fn(e):
        if kind == "group":
            return g.Group(e)
        if kind in ("reassocL", "reassocR"):
            cls = type(e)
            if cls.__name__ not in ("Sequence", "Choice") or len(e.children()) < 3:
                return None
            kids = e.children()
            if kind == "reassocR":
                return cls(kids[0], g.Group(cls(*kids[1:])))
            return cls(g.Group(cls(*kids[:-1])), kids[-1])
        if kind == "extract":
            rules[name] = rl.GrammarRule(name, e, rl.SILENT)
            return ex.Identifier(name)
        if kind == "dup":
            return g.Group(g.Choice(e, e))
        if kind == "never":
            return g.Group(g.Choice(g.Sequence(e, never()), e))
        if kind == "notnever":
            return g.Group(g.Choice(g.Sequence(ex.NegativePredicate(e), never()), e))
        raise ValueError(kind)

    return fn


class Variant:
    """Original and rewritten parsers of one (grammar, rule, site, kind) in four modes."""

    def __init__(self, gtext: str, rname: str, path: tuple, kind: str):
        self.parsers: dict[str, tuple] = {}
        self.errors: dict[str, str] = {}
        self.applicable = True
        a = famcheck.copy_a()
        b = pestenv.load_copy()
        for mode, cp, opt in (("I", a, False), ("IO", b, True)):
            try:
                orig = cp.parser(gtext, optimized=opt)
                rules, doc = cp.modules["pest.grammar"].parse(gtext, cp.pest.Parser.BUILTIN)
                if "+" in kind:
                    ka, rest = kind.split("+", 1)
                    kb, rel = rest.split("@")
                    relpath = tuple(int(x) for x in rel.split(".") if x != "")
                    fa = make_rewrite(cp, ka, rules)
                    fb = make_rewrite(cp, kb, rules, name="xr_second")

                    def fn(e, fa=fa, fb=fb, relpath=relpath):
                        first = fa(e)
                        if first is None:
                            return None
                        try:
                            return rewrite_at(first, relpath, lambda x: self._apply(fb, x))
                        except IndexError:
                            return None
                else:
                    fn = make_rewrite(cp, kind, rules)
                new_expr = rewrite_at(rules[rname].expression, path, lambda e: self._apply(fn, e))
                if not self.applicable:
                    return
                rules[rname].expression = new_expr
                new = cp.pest.Parser(rules, doc, optimizer=cp.pest.DEFAULT_OPTIMIZER if opt else None)
                self.parsers[mode] = (orig, new)
                gm = "G" if mode == "I" else "GO"
                self.parsers[gm] = (cp.generated(orig), cp.generated(new))
            except (symx.Unsupported, symx.Inconclusive):
                raise
            except Exception as e:  # noqa: BLE001
                self.errors[mode] = f"{type(e).__name__}: {str(e)[:200]}"

    def _apply(self, fn, e):
        r = fn(e)
        if r is None:
            self.applicable = False
            return e
        return r

    def compare(self, rule: str, text, k: int = 0):
        fails = []
        res = {}
        for mode, (orig, new) in self.parsers.items():
            ro = famcheck.outcome(pestenv.run_parse(orig, rule, text, k))
            rn = famcheck.outcome(pestenv.run_parse(new, rule, text, k))
            res[mode] = (ro, rn)
            if ro != rn:
                fails.append((f"{mode}:rewrite-changes-result", f"{mode}: original {str(ro)[:160]} rewritten {str(rn)[:160]}"))
        for mode, err in self.errors.items():
            fails.append((f"{mode}:build", err))
        return res, fails


@core.task_fn("c08")
def run(task: dict) -> dict:
    res = core.new_result(task["unit"])
    gtext = open(os.path.join(pestenv.REPO, task["file"]), encoding="utf-8").read()
    try:
        v = Variant(gtext, task["rule"], tuple(task["path"]), task["kind"])
    except (symx.Unsupported, symx.Inconclusive) as e:
        res["inconclusive"].append(("build", str(e)))
        return res
    if not v.applicable:
        res["skipped"] = "rewrite not applicable at this site"
        return res
    regions = task.get("regions", {})
    t_end = time.time() + task.get("budget_s", 60)
    for name, start_rule, parts in task["inputs"]:
        key = name
        eng = Engine()
        holder = {}

        def fn(e, parts=parts, start_rule=start_rule):
            sym = any(isinstance(p, int) for p in parts)
            text = SymStr.template(e, parts, hi=symx.MAXCP - 1) if sym else "".join(parts)
            holder["text"] = text
            return v.compare(start_rule, text)

        try:
            for pr in eng.explore(fn, max_paths=task.get("max_paths", 3000), deadline=t_end):
                if pr.status != "ok":
                    res["inconclusive"].append((key, f"{pr.status}: {(pr.reason or '')[:100]}"))
                    continue
                text = holder["text"]
                w = text.concrete(pr.model) if isinstance(text, SymStr) else text
                r, fails = pr.value
                cr, cfails = v.compare(start_rule, w)
                if cr != r:
                    res["harness_errors"].append(f"C08 path/concrete mismatch {task['unit']} {key} {w!r}"[:400])
                    continue
                res["validated"] += 1
                first = next(iter(r.values()), (("?",),))[0]
                res["accepting" if first[0] == "OK" else "rejecting"] += 1
                if len(res["samples"]) < 1 and isinstance(text, SymStr):
                    res["samples"].append({"grammar": task["file"], "rule": task["rule"], "site": list(task["path"]), "rewrite": task["kind"], "input": w, "result": first[0]})
                if fails:
                    vars_by_name = {symx.var_name(x): x for x in famcheck._vars_of(text)}
                    status, _o = core.classify_failure(pr.pc, regions.get(key), vars_by_name)
                    res["failures"].append(
                        {
                            "key": key,
                            "kind": ",".join(sorted({f[0] for f in fails})),
                            "detail": " | ".join(f[1] for f in fails)[:500],
                            "witness": w,
                            "pc": z3.simplify(core.pc_formula(pr.pc)).sexpr(),
                            "vars": sorted(vars_by_name),
                            "status": status,
                            "finding": regions.get(key, {}).get("finding") if status == "known" else None,
                            "replay": {"type": "c08", "module": "vf.props.c08", "file": task["file"], "rule": task["rule"], "path": list(task["path"]), "kind": task["kind"], "start": start_rule, "text": w},
                        }
                    )
        except symx.Inconclusive as e:
            res["inconclusive"].append((key, str(e)[:150]))
        core.absorb_engine(res, eng)
    return res


def _replay(spec):
    pestenv.REAL = True
    famcheck._COPY_A = None
    gtext = open(os.path.join(pestenv.REPO, spec["file"]), encoding="utf-8").read()
    v = Variant(gtext, spec["rule"], tuple(spec["path"]), spec["kind"])
    _r, fails = v.compare(spec["start"], spec["text"])
    return fails


replay_ext.HANDLERS["c08"] = _replay


def plan(tier: str, seed: int):
    cp = famcheck.copy_a()
    corp = corpus()
    rnd = random.Random(seed)
    variants = []
    for f in grammar_files():
        rel = os.path.relpath(f, pestenv.REPO)
        gtext = open(f, encoding="utf-8").read()
        p = cp.parser(gtext)
        entries = [e for e in corp.get(rel, []) if len(e["text"]) <= 120]
        if not entries:
            continue
        for rname, rule in p.rules.items():
            if type(rule).__name__ != "GrammarRule":
                continue
            for path, e in sites(cp, rule.expression):
                for kind in KINDS + COMBOS:
                    if kind.startswith("reassoc") and not (type(e).__name__ in ("Sequence", "Choice") and len(e.children()) >= 3):
                        continue
                    variants.append((rel, rname, path, kind, entries))
    total = len(variants)
    # every variant at the sites of rules that use the stack terminals (few rules; state-heavy) ...
    is_prio = lambda v: v[0].endswith(("lists.pest", "surround.pest")) or v[1] == "node_tag"  # noqa: E731  (the two bundled stack grammars: every rule; the one tagged rule)
    prio = [v for v in variants if is_prio(v)]
    rest = [v for v in variants if not is_prio(v)]
    singles = [v for v in rest if "+" not in v[3]]
    combos = [v for v in rest if "+" in v[3]]
    # ... and a seeded sample of the others (quick 550 + 400; thorough 5000 + 2500: all 49 004 would take 5 h)
    ns, nc = (550, 400) if tier == "quick" else (5000, 2500)
    variants = prio + rnd.sample(singles, min(ns, len(singles))) + rnd.sample(combos, min(nc, len(combos)))
    tasks = []
    for rel, rname, path, kind, entries in variants:
        r2 = random.Random(f"{seed}/{rel}/{rname}/{path}/{kind}")
        inputs = []
        picks = r2.sample(entries, min(len(entries), 3 if tier == "quick" else 5))
        for i, en in enumerate(picks):
            t = en["text"]
            inputs.append((f"corpus{i}", en["rule"], [t]))
            if t:
                for j in range(2 if tier == "quick" else 4):
                    off = r2.randrange(len(t))
                    w = 1 if tier == "quick" or j % 2 == 0 else 2
                    inputs.append((f"corpus{i}@{off}w{w}", en["rule"], [t[:off], w, t[off + w :]]))
                off = r2.randrange(len(t) + 1)
                inputs.append((f"corpus{i}+ins@{off}", en["rule"], [t[:off], 1, t[off:]]))
        en = picks[0]
        for n in (1, 2) if tier == "quick" else (1, 2, 3):
            inputs.append((f"whole-n{n}", en["rule"], [n]))
        unit = f"{rel}:{rname}:{'.'.join(map(str, path)) or 'root'}:{kind}"
        tasks.append({"fn": "c08", "unit": unit, "file": rel, "rule": rname, "path": list(path), "kind": kind, "inputs": inputs, "budget_s": 60 if tier == "quick" else 240, "max_paths": 3000 if tier == "quick" else 20000})
    return tasks, total


def canary() -> bool:
    """Choice.parse without restore (a failed alternative leaves its position) must be detected."""
    cp = famcheck.copy_a()
    Ch = cp.modules["pest.grammar.expressions.choice"].Choice
    orig = Ch.parse

    def bad_parse(self, state, pairs):
        for expr in self.expressions:
            state.checkpoint()
            children = []
            if expr.parse(state, children):
                state.ok()
                pairs.extend(children)
                return True
            pos = state.pos
            state.restore()
            state.pos = pos  # position of the abandoned attempt leaks
        return False

    Ch.parse = bad_parse
    try:
        r = run({"unit": "canary", "file": "tests/grammars/json.pest", "rule": "bool", "path": [0], "kind": "never", "inputs": [("c", "bool", ["true"]), ("w", "bool", ["tr", 1, "e"])]})
    finally:
        Ch.parse = orig
    return bool(r["failures"])


def main(tier: str, seed: int, args) -> int:
    t0 = time.time()
    known = core.Known()
    famcheck.copy_a()
    if not canary():
        print("HARNESS-ERROR: canary (failed alternative leaks its position) not detected")
        return core.EXIT_HARNESS
    tasks, total = plan(tier, seed)
    regions = known.regions_for("C08")
    for t in tasks:
        t["regions"] = {k[len(t["unit"]) + 1 :]: v for k, v in regions.items() if k.startswith(t["unit"] + "|")}
    if args.only:
        tasks = [t for t in tasks if args.only in t["unit"]]
    print(f"C08 {tier}: {len(tasks)} of {total} (site, rewrite) variants", flush=True)
    results = core.run_units(None, tasks, init=famcheck.copy_a)
    return core.finish(
        "C08",
        tier,
        seed,
        "translation_validation",
        results,
        t0=t0,
        rule="program = (bundled grammar, rule, sub-expression site, rewrite kind); each is decided on corpus inputs with a window of 1-2 symbolic characters (replaced / inserted at seeded offsets) and on whole symbolic inputs of length <= 2/3, original vs rewritten in the same mode, four modes; one case = one joint path",
        assumptions=[
            "NEVER is U+10FFFF U+10FFFE and symbolic characters are assumed != U+10FFFF",
            "every variant at every site of the two bundled stack grammars (lists.pest, surround.pest), plus a seeded sample of the others: quick 550 single + 400 combined, thorough 5000 + 2500 (VERIF_SEED selects which); windows wider than 2 and documents longer than 120 characters are outside the claim",
            "failure positions / expected sets are not compared (the rewrites add failed attempts by design); outcome and tree are",
            "rewrites are applied to the Expression tree of a fresh pest.grammar.parse() and given to the public Parser(rules, doc, optimizer=...) constructor",
        ],
        extra_cov={"variants_total": total, "variants_run": len(tasks), "canary": "choice-leaks-position detected"},
        functions=["pest.parser.Parser.__init__/parse/generate", "pest.state.ParserState.{checkpoint,ok,restore}", "pest.stack.Stack.*", "pest.grammar.expressions.{choice,prefix,group,sequence}.*", "pest.grammar.rule.Rule.parse/generate", "pest.grammar.optimizer.* (optimized modes)"],
        bounds={"window": 1 if tier == "quick" else 2, "whole_len": 2 if tier == "quick" else 3},
        known=known,
    )
