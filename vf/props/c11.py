"""C11 - loading a grammar is total (shares its machinery with C10)."""

from .c10 import main_for


def main(tier: str, seed: int, args) -> int:
    return main_for("C11", tier, seed, args)
