"""python-pest Expression tree -> neutral AST (family.py tuples).

Used at authoring time to export golden cases for the refpeg self-test and at
run time where a check needs the neutral form of a bundled grammar.
"""

from __future__ import annotations


class NotConvertible(Exception):
    pass


_MODS = {0: "", 2: "_", 4: "@", 8: "$", 16: "!"}


KEEP_GROUPS = False


def conv(e) -> tuple:  # noqa: PLR0911, PLR0912
    n = type(e).__name__
    tag = getattr(e, "tag", None)

    def t(x):
        return ("tag", tag, x) if tag else x

    if n == "String":
        return t(("str", e.value))
    if n == "CIString":
        return t(("istr", e.value))
    if n == "Range":
        return t(("range", e.start, e.stop))
    if n == "Identifier":
        if e.value == "EOI":
            return t(("eoi",))
        return t(("ref", e.value))
    if n == "Any":
        return ("any",)
    if n == "SOI":
        return ("soi",)
    if n == "EOI":
        return ("eoi",)
    if n in ("ASCIIRule", "BuiltInRule", "UnicodePropertyRule"):
        return ("builtin", e.name)
    if n == "Group":
        if KEEP_GROUPS:
            return t(("group", conv(e.expression)))
        return t(conv(e.expression))
    if n == "Sequence":
        return ("seq", *[conv(x) for x in e.expressions])
    if n == "Choice":
        return ("choice", *[conv(x) for x in e.expressions])
    if n == "Optional":
        return ("opt", conv(e.expression))
    if n == "Repeat":
        return ("star", conv(e.expression))
    if n == "RepeatOnce":
        return ("plus", conv(e.expression))
    if n == "RepeatExact":
        return ("rep", conv(e.expression), e.number, e.number)
    if n == "RepeatMin":
        return ("rep", conv(e.expression), e.number, None)
    if n == "RepeatMax":
        return ("rep", conv(e.expression), None, e.number)
    if n == "RepeatMinMax":
        return ("rep", conv(e.expression), e.min, e.max)
    if n == "PositivePredicate":
        return t(("and", conv(e.expression)))
    if n == "NegativePredicate":
        return t(("not", conv(e.expression)))
    if n == "Push":
        return t(("push", conv(e.expression)))
    if n == "PushLiteral":
        return t(("pushlit", e.value))
    if n == "Peek":
        return t(("peek",))
    if n == "PeekSlice":
        return t(("peekslice", e.start, e.stop))
    if n == "PeekAll":
        return t(("peekall",))
    if n == "Pop":
        return t(("pop",))
    if n == "PopAll":
        return t(("popall",))
    if n == "Drop":
        return t(("drop",))
    raise NotConvertible(n)


def conv_rules(parser) -> list[tuple]:
    out = []
    for name, rule in parser.rules.items():
        if type(rule).__name__ != "GrammarRule":
            continue
        out.append((name, _MODS[rule.modifier], conv(rule.expression)))
    return out
