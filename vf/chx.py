"""Runner for the CrossHair second-engine units (ch/leaf.py)."""

from __future__ import annotations

import ast
import os
import re
import subprocess
import sys
import time

from . import core

HERE = os.path.dirname(os.path.dirname(os.path.abspath(__file__)))
FILE = os.path.join(HERE, "ch", "leaf.py")


def conditions():
    tree = ast.parse(open(FILE).read())
    return [(n.name, n.lineno + 1) for n in tree.body if isinstance(n, ast.FunctionDef) and n.name.startswith("_") and "post:" in (ast.get_docstring(n) or "")]


@core.task_fn("crosshair")
def run(task: dict) -> dict:
    name, line, timeout = task["name"], task["line"], task.get("timeout", 120)
    res = core.new_result(task["unit"])
    env = dict(os.environ, PYTHONPATH=os.pathsep.join([os.path.join(os.environ.get("VERIF_REPO", "/repo"), "src"), HERE]), PYTHONDONTWRITEBYTECODE="1")
    cmd = [sys.executable, "-m", "crosshair", "check", "--report_all", "--per_condition_timeout", str(timeout), f"{FILE}:{line}"]
    t0 = time.time()
    try:
        p = subprocess.run(cmd, env=env, capture_output=True, text=True, timeout=timeout * 3 + 60, cwd=HERE)
        out = p.stdout + p.stderr
    except subprocess.TimeoutExpired:
        out = "TIMEOUT"
    res["paths"] = 1
    res["accepting"] = 1
    res["samples"].append({"crosshair_condition": name, "output": out.strip()[-300:], "seconds": round(time.time() - t0, 1)})
    if "Confirmed over all paths" in out:
        res["validated"] = 1
    elif re.search(r"error: (false|False) when calling|error: .* when calling", out):
        m = re.search(r"when calling (.*?)(?: \(which|$)", out, re.S)
        res["failures"].append(
            {
                "key": name,
                "kind": "crosshair-counterexample",
                "detail": out.strip()[-400:],
                "witness": (m.group(1).strip()[:200] if m else ""),
                "pc": "true",
                "vars": [],
                "status": "new",
                "finding": None,
                "replay": {"type": "crosshair", "module": "vf.chx", "name": name, "call": (m.group(1).strip() if m else "")},
            }
        )
    else:
        res["inconclusive"].append((name, "CrossHair: " + (out.strip().splitlines()[-1][:150] if out.strip() else "no verdict")))
    return res


def _replay(spec):
    """Evaluate the counterexample call CrossHair printed against the real, un-stubbed functions."""
    import importlib.util

    sys.path.insert(0, os.path.join(os.environ.get("VERIF_REPO", "/repo"), "src"))
    sp = importlib.util.spec_from_file_location("leaf", FILE)
    mod = importlib.util.module_from_spec(sp)
    sp.loader.exec_module(mod)
    call = spec.get("call", "")
    try:
        ok = eval(call, mod.__dict__)  # noqa: S307 - our own harness call printed by CrossHair
    except Exception as e:  # noqa: BLE001
        return [("crosshair-counterexample", f"{call} raised {type(e).__name__}: {e}")]
    return [] if ok else [("crosshair-counterexample", f"{call} is False")]


from . import replay_ext  # noqa: E402

replay_ext.HANDLERS["crosshair"] = _replay


def tasks(names: list[str], timeout: int):
    return [{"fn": "crosshair", "unit": f"crosshair/{n}", "name": n, "line": ln, "timeout": timeout, "hard_timeout_s": timeout * 3 + 90} for n, ln in conditions() if n in names]
