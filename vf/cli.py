"""Command line entry of every check."""

from __future__ import annotations

import argparse
import os
import sys

FAMILY_PROPS = {"C01", "C02", "C03", "C04", "C05", "C06", "C07", "C13", "C16"}


def main() -> int:
    ap = argparse.ArgumentParser()
    ap.add_argument("prop")
    ap.add_argument("--tier", default=os.environ.get("VERIF_TIER", "quick"))
    ap.add_argument("--only")
    ap.add_argument("--record")
    ap.add_argument("--replay")
    a = ap.parse_args()
    seed = int(os.environ.get("VERIF_SEED", "0") or 0)
    os.environ["VERIF_TIER_EFFECTIVE"] = a.tier
    if a.replay:
        from . import replay
        import json

        fails = replay.replay(json.load(open(a.replay)))
        for f in fails:
            print("REPRODUCED", f[0], "::", str(f[1])[:500])
        print("VIOLATION property=%s replay=%s" % (a.prop, a.replay) if fails else "not reproduced")
        return 1 if fails else 0
    if a.prop in FAMILY_PROPS:
        from . import famdriver
        from . import c13x  # noqa: F401  (registers the C13 stand-alone units)

        return famdriver.main(a.prop, a.tier, seed, a.only, a.record)
    import importlib

    if a.record:
        os.environ["VERIF_RECORD"] = a.record
    mod = importlib.import_module(f"vf.props.{a.prop.lower()}")
    return mod.main(a.tier, seed, a)


if __name__ == "__main__":
    try:
        rc = main()
    except SystemExit:
        raise
    except BaseException:  # noqa: BLE001  a crash of the machinery is a harness error (3), never a verdict
        import traceback

        traceback.print_exc()
        print("HARNESS-ERROR: the check crashed (see traceback); no verdict")
        rc = 3
    sys.exit(rc)
