"""symx - a small fork-by-replay symbolic executor for the real python-pest code.

The code under test runs unmodified on proxy objects (SymStr / SymInt /
SymBool).  Every branch on a symbolic value calls ``Engine.branch`` which asks
z3 whether one or both outcomes are feasible under the current path condition.
Paths are explored depth first by re-running the function with a recorded
decision prefix (the scheme KLEE/CrossHair use).

Only code points (and, for the Stack/Pratt units, integers) are symbolic; string
lengths and positions are concrete, the length being an explicit outer
parameter of every unit.
"""

from __future__ import annotations

import time
from typing import Any, Callable, Iterable, Iterator

import z3

MAXCP = 0x10FFFF

# Characters str.splitlines() treats as line boundaries.
LINE_BOUNDARIES = (0x0A, 0x0B, 0x0C, 0x0D, 0x1C, 0x1D, 0x1E, 0x85, 0x2028, 0x2029)
# str.isspace() code points (what str.strip()/rstrip() remove by default).
SPACE_CPS = tuple(cp for cp in range(0x3001) if chr(cp).isspace())
OPAQUE_MARK = "⟦sym⟧"


class Unsupported(Exception):
    """A proxy was used in a way the executor does not model (path inconclusive)."""


class Inconclusive(Exception):
    """The solver answered unknown / a budget ran out (path inconclusive)."""


CUR: "Engine | None" = None
_VARS: dict = {}
_NAMES: dict = {}


def var_name(v) -> str:
    n = _NAMES.get(v.get_id())
    return n if n is not None else str(v)


def engine() -> "Engine":
    if CUR is None:
        raise RuntimeError("no symx engine active")
    return CUR


class PathResult:
    __slots__ = ("pc", "model", "value", "status", "reason", "decisions")

    def __init__(self, pc, model, value, status, reason, decisions):
        self.pc = pc  # list of z3 BoolRef (forked decisions only) + assumptions
        self.model = model  # dict var-name -> int
        self.value = value
        self.status = status  # "ok" | "unsupported" | "inconclusive"
        self.reason = reason
        self.decisions = decisions


class Engine:
    """Path exploration driver + z3 bookkeeping."""

    def __init__(self, *, query_timeout_ms: int = 20000):
        self.solver = z3.Solver()
        self.solver.set("timeout", query_timeout_ms)
        self.prefix: list[tuple[bool, bool]] = []
        self.trace: list[tuple[bool, bool]] = []
        self.pc: list[Any] = []
        self.memo: dict[int, tuple[bool, Any]] = {}
        self._stash = None
        self.model: z3.ModelRef | None = None
        self.vars: list[Any] = []
        self.queries = 0
        self.solver_s = 0.0
        self.paths = 0
        self.branches = 0
        self._pending: list[tuple[list[tuple[bool, bool]], Any]] = []
        self._fresh = 0

    # -- variables ---------------------------------------------------------
    def int_var(self, name: str, lo: int | None = None, hi: int | None = None):
        hit = _VARS.get(name)
        if hit is None:
            hit = _VARS[name] = z3.Int(name)
            _NAMES[hit.get_id()] = name
        v = hit
        self.vars.append(v)
        key = (name, lo, hi)
        dom = _TERMS.get(key)
        if dom is None:
            parts = ([v >= lo] if lo is not None else []) + ([v <= hi] if hi is not None else [])
            dom = _TERMS[key] = (parts, v)
        for c in dom[0]:
            self.assume(c)
        return v

    def bool_var(self, name: str):
        hit = _VARS.get(name)
        if hit is None:
            hit = _VARS[name] = z3.Bool(name)
            _NAMES[hit.get_id()] = name
        self.vars.append(hit)
        return hit

    def assume(self, cond) -> None:
        """Add a domain constraint (part of every path of the unit)."""
        self.solver.add(cond)
        self.pc.append(cond)
        self.model = None

    # -- solver ------------------------------------------------------------
    def _check(self, *assumptions):
        t = time.perf_counter()
        r = self.solver.check(*assumptions)
        self.solver_s += time.perf_counter() - t
        self.queries += 1
        if r == z3.unknown:
            raise Inconclusive("z3 unknown: " + self.solver.reason_unknown())
        return r

    def _ensure_model(self):
        if self.model is None:
            if self._check() != z3.sat:
                raise Inconclusive("path condition unsat (infeasible prefix)")
            self.model = self.solver.model()
        return self.model

    def branch(self, cond) -> bool:
        if isinstance(cond, bool):
            return cond
        cid = cond.get_id()
        hit = self.memo.get(cid)
        if hit is not None:
            return hit[0]
        self.branches += 1
        i = len(self.trace)
        if i < len(self.prefix):
            val, forked = self.prefix[i]
            self.trace.append((val, forked))
            if forked:
                c = cond if val else z3.Not(cond)
                self.solver.add(c)
                self.pc.append(c)
                if i == len(self.prefix) - 1 and self._stash is not None:
                    self.model = self._stash
                    self._stash = None
                else:
                    self.model = None
            self.memo[cid] = (val, cond)  # keep cond alive: z3 reuses ids of freed ASTs
            return val
        m = self._ensure_model()
        mv = m.eval(cond, model_completion=True)
        if z3.is_true(mv):
            val = True
        elif z3.is_false(mv):
            val = False
        else:  # pragma: no cover - model_completion makes this unreachable
            raise Inconclusive("model evaluation not decided")
        other = z3.Not(cond) if val else cond
        r = self._check(other)
        if r == z3.sat:
            other_model = self.solver.model()
            self._pending.append((self.trace + [(not val, True)], other_model))
            self.trace.append((val, True))
            c = cond if val else z3.Not(cond)
            self.solver.add(c)
            self.pc.append(c)
            # current model still satisfies the taken side
        else:
            self.trace.append((val, False))
        self.memo[cid] = (val, cond)
        return val

    def implied(self, cond) -> bool:
        """True when the path condition entails cond (no fork, no trace entry)."""
        if isinstance(cond, bool):
            return cond
        return self._check(z3.Not(cond)) == z3.unsat

    def feasible_values(self, term, limit: int) -> list[int] | None:
        """All values `term` can take under the current pc, or None if > limit."""
        vals: list[int] = []
        self.solver.push()
        try:
            while True:
                if self._check() != z3.sat:
                    return vals
                v = self.solver.model().eval(term, model_completion=True).as_long()
                vals.append(v)
                if len(vals) > limit:
                    return None
                self.solver.add(term != v)
        finally:
            self.solver.pop()

    def concretize(self, term, limit: int = 64) -> int:
        """Fork over the feasible values of an integer term and return one."""
        if isinstance(term, int):
            return term
        if z3.is_int_value(term):
            return term.as_long()
        vals = self.feasible_values(term, limit)
        if vals is None:
            raise Unsupported(f"concretize: more than {limit} feasible values")
        for v in sorted(vals)[:-1]:
            if self.branch(term == v):
                return v
        return sorted(vals)[-1]

    # -- exploration -------------------------------------------------------
    def explore(
        self,
        fn: Callable[["Engine"], Any],
        *,
        max_paths: int = 100000,
        deadline: float | None = None,
    ) -> Iterator[PathResult]:
        """Run fn(engine) on every feasible path.  fn declares its own inputs."""
        global CUR
        work: list[tuple[list[tuple[bool, bool]], Any]] = [([], None)]
        while work:
            if self.paths >= max_paths or (deadline and time.time() > deadline):
                raise Inconclusive(
                    f"budget exhausted after {self.paths} paths ({len(work)} pending)"
                )
            prefix, stash = work.pop()
            self.prefix = prefix
            self._stash = stash
            self.trace = []
            self.pc = []
            self.memo = {}
            self.model = None
            self.vars = []
            self._pending = []
            self.solver.push()
            prev = CUR
            CUR = self
            status, reason, value = "ok", None, None
            try:
                value = fn(self)
            except Unsupported as e:
                status, reason = "unsupported", str(e)
            except Inconclusive as e:
                status, reason = "inconclusive", str(e)
            finally:
                CUR = prev
            model = None
            try:
                m = self._ensure_model()
                model = {
                    var_name(v): _pyval(m.eval(v, model_completion=True)) for v in self.vars
                }
            except Inconclusive as e:
                if status == "ok":
                    status, reason = "inconclusive", str(e)
            self.solver.pop()
            self.paths += 1
            # DFS: explore the most recently discovered alternatives first.
            work.extend(self._pending)
            yield PathResult(list(self.pc), model, value, status, reason, len(self.trace))


def _pyval(v):
    if z3.is_int_value(v):
        return v.as_long()
    if z3.is_true(v):
        return True
    if z3.is_false(v):
        return False
    return str(v)


# ---------------------------------------------------------------------------
# SymBool / SymInt


class SymBool:
    __slots__ = ("t",)

    def __init__(self, t):
        self.t = t

    def __bool__(self) -> bool:
        if z3.is_true(self.t):
            return True
        if z3.is_false(self.t):
            return False
        return engine().branch(self.t)

    def __and__(self, o):
        return SymBool(z3.And(self.t, _b(o)))

    __rand__ = __and__

    def __or__(self, o):
        return SymBool(z3.Or(self.t, _b(o)))

    __ror__ = __or__

    def __invert__(self):
        return SymBool(z3.Not(self.t))

    def __eq__(self, o):
        return SymBool(self.t == _b(o))

    def __ne__(self, o):
        return SymBool(self.t != _b(o))

    def __hash__(self):
        return hash(bool(self))

    def __repr__(self):
        return f"SymBool({self.t})"


def _b(o):
    if isinstance(o, SymBool):
        return o.t
    if isinstance(o, bool):
        return z3.BoolVal(o)
    if z3.is_bool(o):
        return o
    raise Unsupported(f"bool op with {type(o).__name__}")


def _i(o):
    if isinstance(o, SymInt):
        return o.t
    if isinstance(o, bool):
        return int(o)
    if isinstance(o, int):
        return o
    if z3.is_expr(o):
        return o
    return None


def mkint(t):
    """Wrap a z3 term, collapsing literals to python ints."""
    if isinstance(t, int):
        return t
    if z3.is_int_value(t):
        return t.as_long()
    return SymInt(t)


class SymInt:
    """Integer proxy over a z3 Int term."""

    __slots__ = ("t", "lowzero")

    def __init__(self, t, lowzero: int = 0):
        self.t = t
        self.lowzero = lowzero  # number of low bits known to be zero (set by <<)

    def __lshift__(self, k):
        if not isinstance(k, int) or k < 0:
            raise Unsupported("shift by non-constant")
        r = mkint(z3.simplify(self.t * (1 << k)))
        if isinstance(r, SymInt):
            r.lowzero = self.lowzero + k
        return r

    def __or__(self, o):
        x = _i(o)
        if x is None:
            return NotImplemented
        e = engine()
        # (v << k) | w  ==  (v << k) + w   when 0 <= w < 2**k
        if self.lowzero and e.implied(z3.And(x >= 0, x < (1 << self.lowzero)) if not isinstance(x, int) else z3.BoolVal(0 <= x < (1 << self.lowzero))):
            if not e.implied(self.t >= 0):
                raise Unsupported("| on possibly negative value")
            return mkint(z3.simplify(self.t + x))
        raise Unsupported("symbolic | without disjoint-bits proof")

    def __ror__(self, o):
        if isinstance(o, int) and o == 0:
            return self
        raise Unsupported("int | symbolic")

    # arithmetic
    def __add__(self, o):
        x = _i(o)
        return NotImplemented if x is None else mkint(z3.simplify(self.t + x))

    __radd__ = __add__

    def __sub__(self, o):
        x = _i(o)
        return NotImplemented if x is None else mkint(z3.simplify(self.t - x))

    def __rsub__(self, o):
        x = _i(o)
        return NotImplemented if x is None else mkint(z3.simplify(x - self.t))

    def __mul__(self, o):
        x = _i(o)
        if x is None:
            return NotImplemented
        if not isinstance(x, int):
            raise Unsupported("symbolic * symbolic")
        return mkint(z3.simplify(self.t * x))

    __rmul__ = __mul__

    def __neg__(self):
        return mkint(z3.simplify(-self.t))

    def __pos__(self):
        return self

    def __abs__(self):
        return mkint(z3.If(self.t >= 0, self.t, -self.t))

    def __floordiv__(self, o):
        x = _i(o)
        if not isinstance(x, int) or x <= 0:
            raise Unsupported("floordiv by non-constant")
        return mkint(self.t / x)  # z3 int division floors for positive divisor

    def __mod__(self, o):
        x = _i(o)
        if not isinstance(x, int) or x <= 0:
            raise Unsupported("mod by non-constant")
        return mkint(self.t % x)

    # comparisons
    def _cmp(self, o, f):
        x = _i(o)
        if x is None:
            return NotImplemented
        return SymBool(z3.simplify(f(self.t, x)))

    def __lt__(self, o):
        return self._cmp(o, lambda a, b: a < b)

    def __le__(self, o):
        return self._cmp(o, lambda a, b: a <= b)

    def __gt__(self, o):
        return self._cmp(o, lambda a, b: a > b)

    def __ge__(self, o):
        return self._cmp(o, lambda a, b: a >= b)

    def __eq__(self, o):
        x = _i(o)
        if x is None:
            return False
        return SymBool(z3.simplify(self.t == x))

    def __ne__(self, o):
        x = _i(o)
        if x is None:
            return True
        return SymBool(z3.simplify(self.t != x))

    def __bool__(self):
        return engine().branch(self.t != 0)

    def __index__(self):
        return engine().concretize(self.t)

    __int__ = __index__

    def __hash__(self):
        return hash(self.__index__())

    def __repr__(self):
        return f"SymInt({self.t})"

    def __str__(self):
        return OPAQUE_MARK

    def __format__(self, spec):
        return OPAQUE_MARK


# ---------------------------------------------------------------------------
# SymStr


_TERMS: dict = {}  # (id, ...) -> (term, keep-alive refs): z3py term construction is the hot spot


def _ceq(a, b):
    """Equality of two code points (python int or z3 term) as bool / z3 Bool."""
    ia, ib = isinstance(a, int), isinstance(b, int)
    if ia and ib:
        return a == b
    if ia:
        a, b, ib = b, a, True
    key = (a.get_id(), b) if ib else (a.get_id(), "v", b.get_id())
    hit = _TERMS.get(key)
    if hit is None:
        hit = _TERMS[key] = (a == b, a, b)
    return hit[0]


def _conj(conds: Iterable[Any]):
    out = []
    for c in conds:
        if c is True:
            continue
        if c is False:
            return False
        out.append(c)
    if not out:
        return True
    if len(out) == 1:
        return out[0]
    return z3.And(*out)


def _disj(conds: Iterable[Any]):
    out = []
    for c in conds:
        if c is False:
            continue
        if c is True:
            return True
        out.append(c)
    if not out:
        return False
    if len(out) == 1:
        return out[0]
    return z3.Or(*out)


def in_set(c, cps: Iterable[int]):
    """Membership of a code point term in a finite set, as bool / z3 Bool."""
    if isinstance(c, int):
        return c in set(cps)
    cps = tuple(cps)
    key = (c.get_id(), "set", cps)
    hit = _TERMS.get(key)
    if hit is None:
        hit = _TERMS[key] = (_disj([c == v for v in cps]), c)
    return hit[0]


def in_intervals(c, ivs: Iterable[tuple[int, int]]):
    if isinstance(c, int):
        return any(lo <= c <= hi for lo, hi in ivs)
    if not isinstance(ivs, tuple):
        ivs = tuple(ivs)
    key = (c.get_id(), "iv", ivs)
    hit = _TERMS.get(key)
    if hit is None:
        hit = _TERMS[key] = (_in_intervals(c, ivs), c)
    return hit[0]


def _in_intervals(c, ivs):
    ivs = [(lo, hi) for lo, hi in ivs if lo <= hi]
    parts = []
    for lo, hi in ivs:
        if lo == hi:
            parts.append(c == lo)
        elif lo == 0 and hi >= MAXCP:
            return True
        elif lo == 0:
            parts.append(c <= hi)
        elif hi >= MAXCP:
            parts.append(c >= lo)
        else:
            parts.append(z3.And(c >= lo, c <= hi))
    return _disj(parts)


def mkstr(chars) -> "str | SymStr":
    chars = tuple(chars)
    if all(isinstance(c, int) for c in chars):
        return "".join(map(chr, chars))
    return SymStr(chars)


def sym_join(parts):
    """"".join(parts) for str / SymStr pieces (str.join is a C function and rejects proxies)."""
    parts = list(parts)
    if all(isinstance(x, str) for x in parts):
        return "".join(parts)
    out: list = []
    for x in parts:
        out.extend(chars_of(x))
    return SymStr(tuple(out))


def chars_of(s) -> tuple:
    if isinstance(s, SymStr):
        return s.ch
    if isinstance(s, str):
        return tuple(map(ord, s))
    raise Unsupported(f"expected str-like, got {type(s).__name__}")


class SymStr:
    """A string whose characters are z3 integer terms (or concrete ints).

    Deliberately not a subclass of str: a C function can never silently read a
    concrete buffer; unsupported uses raise.
    """

    __slots__ = ("ch",)

    def __init__(self, ch):
        self.ch = tuple(ch)

    # -- construction helpers --------------------------------------------
    @staticmethod
    def fresh(eng: Engine, n: int, prefix: str = "c", lo: int = 0, hi: int = MAXCP):
        return SymStr([eng.int_var(f"{prefix}{i}", lo, hi) for i in range(n)])

    @staticmethod
    def template(eng: Engine, parts, prefix: str = "w", lo: int = 0, hi: int = MAXCP):
        """parts: iterable of str (concrete) or int k (k fresh symbolic chars)."""
        ch: list[Any] = []
        k = 0
        for p in parts:
            if isinstance(p, str):
                ch.extend(map(ord, p))
            else:
                for _ in range(p):
                    ch.append(eng.int_var(f"{prefix}{k}", lo, hi))
                    k += 1
        return SymStr(ch)

    def concrete(self, model: dict[str, int]) -> str:
        out = []
        for c in self.ch:
            if isinstance(c, int):
                out.append(chr(c))
            else:
                out.append(chr(model[var_name(c)]))
        return "".join(out)

    # -- basics ------------------------------------------------------------
    def __len__(self):
        return len(self.ch)

    def __bool__(self):
        return len(self.ch) > 0

    def __getitem__(self, i):
        if isinstance(i, slice):
            return mkstr(self.ch[i])
        if isinstance(i, SymInt):
            i = i.__index__()
        return mkstr((self.ch[i],))

    def __iter__(self):
        for c in self.ch:
            yield mkstr((c,))

    def __add__(self, o):
        if isinstance(o, (str, SymStr)):
            return mkstr(self.ch + chars_of(o))
        return NotImplemented

    def __radd__(self, o):
        if isinstance(o, str):
            return mkstr(chars_of(o) + self.ch)
        return NotImplemented

    def __mul__(self, k):
        return mkstr(self.ch * int(k))

    __rmul__ = __mul__

    def _eq_cond(self, o):
        oc = chars_of(o)
        if len(oc) != len(self.ch):
            return False
        return _conj(_ceq(a, b) for a, b in zip(self.ch, oc))

    def __eq__(self, o):
        if not isinstance(o, (str, SymStr)):
            return False
        return engine().branch(self._eq_cond(o))

    def __ne__(self, o):
        return not self.__eq__(o)

    def __lt__(self, o):
        raise Unsupported("SymStr ordering")

    __le__ = __gt__ = __ge__ = __lt__

    def __hash__(self):
        return hash(self.realize())

    def realize(self, limit: int = 64) -> str:
        """Concretise by forking over feasible values (per character)."""
        e = engine()
        return "".join(chr(e.concretize(c, limit)) for c in self.ch)

    def __contains__(self, sub):
        return self.find(sub) != -1

    # -- formatting: opaque -------------------------------------------------
    def __str__(self):
        return OPAQUE_MARK

    def __repr__(self):
        return "'" + OPAQUE_MARK + "'"

    def __format__(self, spec):
        return OPAQUE_MARK

    # -- searching -----------------------------------------------------------
    def _match_at(self, sub_ch, pos):
        if pos < 0 or pos + len(sub_ch) > len(self.ch):
            return False
        if len(sub_ch) == 1:
            return _ceq(self.ch[pos], sub_ch[0])
        parts = [_ceq(self.ch[pos + k], sub_ch[k]) for k in range(len(sub_ch))]
        if any(p is False for p in parts):
            return False
        parts = [p for p in parts if p is not True]
        if len(parts) < 2:
            return parts[0] if parts else True
        key = ("and",) + tuple(p.get_id() for p in parts)
        hit = _TERMS.get(key)
        if hit is None:
            hit = _TERMS[key] = (z3.And(*parts), parts)
        return hit[0]

    def startswith(self, prefix, start=0, end=None):
        n = len(self.ch)
        start = _norm_index(start, n, 0)
        end = _norm_index(end, n, n)
        if isinstance(prefix, tuple):
            return any(self.startswith(p, start, end) for p in prefix)
        pc = chars_of(prefix)
        if start + len(pc) > end or start > n:
            return False
        return engine().branch(self._match_at(pc, start))

    def endswith(self, suffix, start=0, end=None):
        n = len(self.ch)
        start = _norm_index(start, n, 0)
        end = _norm_index(end, n, n)
        if isinstance(suffix, tuple):
            return any(self.endswith(p, start, end) for p in suffix)
        sc = chars_of(suffix)
        if end - len(sc) < start:
            return False
        return engine().branch(self._match_at(sc, end - len(sc)))

    def find(self, sub, start=0, end=None):
        n = len(self.ch)
        start = _norm_index(start, n, 0)
        end = _norm_index(end, n, n)
        sc = chars_of(sub)
        e = engine()
        if start > n:
            return -1
        for pos in range(start, end - len(sc) + 1):
            if e.branch(self._match_at(sc, pos)):
                return pos
        return -1

    def rfind(self, sub, start=0, end=None):
        n = len(self.ch)
        start = _norm_index(start, n, 0)
        end = _norm_index(end, n, n)
        sc = chars_of(sub)
        e = engine()
        for pos in range(end - len(sc), start - 1, -1):
            if e.branch(self._match_at(sc, pos)):
                return pos
        return -1

    def index(self, sub, start=0, end=None):
        r = self.find(sub, start, end)
        if r < 0:
            raise ValueError("substring not found")
        return r

    def count(self, sub, start=0, end=None):
        n = len(self.ch)
        start = _norm_index(start, n, 0)
        end = _norm_index(end, n, n)
        sc = chars_of(sub)
        if not sc:
            raise Unsupported("count of empty string")
        e = engine()
        pos, k = start, 0
        while pos <= end - len(sc):
            if e.branch(self._match_at(sc, pos)):
                k += 1
                pos += len(sc)
            else:
                pos += 1
        return k

    # -- line handling ------------------------------------------------------
    def splitlines(self, keepends=False):
        e = engine()
        out = []
        cur: list[Any] = []
        i, n = 0, len(self.ch)
        while i < n:
            c = self.ch[i]
            if e.branch(in_set(c, LINE_BOUNDARIES)):
                end = i + 1
                if (
                    i + 1 < n
                    and e.branch(_ceq(c, 0x0D))
                    and e.branch(_ceq(self.ch[i + 1], 0x0A))
                ):
                    end = i + 2
                out.append(mkstr(cur + (list(self.ch[i:end]) if keepends else [])))
                cur = []
                i = end
            else:
                cur.append(c)
                i += 1
        if cur:
            out.append(mkstr(cur))
        return out

    def _strip_set(self, chars):
        if chars is None:
            return SPACE_CPS
        return tuple(set(chars_of(chars))) if not isinstance(chars, SymStr) else None

    def rstrip(self, chars=None):
        cps = self._strip_set(chars)
        if cps is None:
            raise Unsupported("rstrip with symbolic chars")
        e = engine()
        end = len(self.ch)
        while end > 0 and e.branch(in_set(self.ch[end - 1], cps)):
            end -= 1
        return mkstr(self.ch[:end])

    def lstrip(self, chars=None):
        cps = self._strip_set(chars)
        if cps is None:
            raise Unsupported("lstrip with symbolic chars")
        e = engine()
        st = 0
        while st < len(self.ch) and e.branch(in_set(self.ch[st], cps)):
            st += 1
        return mkstr(self.ch[st:])

    def strip(self, chars=None):
        r = self.rstrip(chars)
        return r.lstrip(chars) if isinstance(r, SymStr) else r.lstrip(chars)

    def isdigit(self):
        if not self.ch:
            return False
        raise Unsupported("isdigit")

    def __int__(self):
        """Decimal integer by forking over ASCII digits (optional sign)."""
        e = engine()
        ch = list(self.ch)
        sign = 1
        if ch and e.branch(_ceq(ch[0], 0x2D)):
            sign = -1
            ch = ch[1:]
        if not ch:
            raise ValueError("invalid literal for int()")
        v = 0
        for c in ch:
            if e.branch(in_intervals(c, [(0x30, 0x39)])):
                v = v * 10 + (e.concretize(c, 10) - 0x30)
                continue
            # CPython's int() also reads every other Unicode decimal digit (category Nd: blocks of ten
            # consecutive code points); anything else (spaces, underscores, letters) is not modelled
            if isinstance(c, int):
                import unicodedata

                d = unicodedata.decimal(chr(c), None)
                if d is None:
                    raise Unsupported("int() of a character that is not a decimal digit")
                v = v * 10 + d
                continue
            blocks = _nd_blocks()
            if not e.branch(in_intervals(c, blocks)):
                raise Unsupported("int() of a character that is not a decimal digit")
            lo, hi = 0, len(blocks) - 1
            while lo < hi:  # binary search for the block of ten the character lies in
                mid = (lo + hi) // 2
                if e.branch(c <= blocks[mid][1]):
                    hi = mid
                else:
                    lo = mid + 1
            v = v * 10 + (e.concretize(c, 10) - blocks[lo][0])
        return sign * v

    def replace(self, old, new, count=-1):
        oc = chars_of(old)
        nc = chars_of(new)
        if not oc:
            raise Unsupported("replace of empty string")
        e = engine()
        out: list[Any] = []
        i, n = 0, len(self.ch)
        while i < n:
            if count != 0 and e.branch(self._match_at(oc, i)):
                out.extend(nc)
                i += len(oc)
                count -= 1
            else:
                out.append(self.ch[i])
                i += 1
        return mkstr(out)

    def encode(self, *a, **k):
        """UTF-8 bytes as a list of ints / SymInts.

        ASCII characters encode to themselves; for a non-ASCII character only the
        lead byte is modelled faithfully enough for range tests (it is >= 0xC2),
        continuation bytes are reported as 0x80.
        """
        if a or k:
            raise Unsupported("SymStr.encode with arguments")
        e = engine()
        out = []
        for i, c in enumerate(self.ch):
            if isinstance(c, int):
                out.extend(chr(c).encode())  # strict: a lone surrogate raises UnicodeEncodeError, as in CPython
            elif e.branch(c < 128):
                out.append(SymInt(c))
            elif e.branch(z3.And(c >= 0xD800, c <= 0xDFFF)):
                raise UnicodeEncodeError("utf-8", "\ud800", i, i + 1, "surrogates not allowed")
            else:
                out.extend([0xC2, 0x80])
        return out

    def __getattr__(self, name):
        raise Unsupported(f"SymStr.{name}")


_ND = None


def _nd_blocks():
    """Non-ASCII Unicode decimal digits as blocks (zero digit, nine digit)."""
    global _ND
    if _ND is None:
        import unicodedata

        zeros = [cp for cp in range(0x80, MAXCP + 1) if unicodedata.decimal(chr(cp), None) == 0]
        _ND = tuple((z, z + 9) for z in zeros if all(unicodedata.decimal(chr(z + k), None) == k for k in range(10)))
    return _ND


def _norm_index(i, n, default):
    if i is None:
        return default
    if isinstance(i, SymInt):
        i = i.__index__()
    if i < 0:
        i = max(0, n + i)
    return min(i, n) if default == n else i


def sym_ord(s):
    """ord() for str or SymStr of length 1 (python int or SymInt)."""
    if isinstance(s, str):
        return ord(s)
    if len(s.ch) != 1:
        raise TypeError("ord() expected a character")
    return mkint(s.ch[0])


def sym_chr(i):
    if isinstance(i, SymInt):
        if not engine().branch(z3.And(i.t >= 0, i.t <= MAXCP)):
            raise ValueError("chr() arg not in range(0x110000)")
        return SymStr((i.t,))
    return chr(i)


def sym_int(x=0, base=10):
    """int() that also accepts SymStr (decimal, or hexadecimal for base 16)."""
    if isinstance(x, SymInt):
        return x
    if not isinstance(x, SymStr):
        return int(x, base) if isinstance(x, (str, bytes)) else int(x)
    if base == 10:
        return x.__int__()
    if base != 16:
        raise Unsupported(f"int(SymStr, {base})")
    e = engine()
    if not x.ch:
        raise ValueError("invalid literal for int() with base 16: ''")
    HEX = ((0x30, 0x39), (0x41, 0x46), (0x61, 0x66))

    def is_hex(c):
        return e.branch(in_intervals(c, HEX))

    def digit(c):
        if isinstance(c, int):
            return int(chr(c), 16)
        return z3.If(c <= 0x39, c - 0x30, z3.If(c <= 0x46, c - 0x37, c - 0x57))

    def fin(t):
        return mkint(z3.simplify(t)) if not isinstance(t, int) else t

    flags = [is_hex(c) for c in x.ch]
    if all(flags):
        total = 0
        for c in x.ch:
            total = total * 16 + digit(c)
        return fin(total)
    # CPython's int() also accepts surrounding whitespace, a sign, "_" between digits, "0x"
    if len(x.ch) == 1:
        raise ValueError("invalid literal for int() with base 16")
    if len(x.ch) == 2:
        a, b = x.ch
        if flags[1] and not flags[0]:
            if e.branch(in_set(a, SPACE_CPS)) or e.branch(_ceq(a, 0x2B)):
                return fin(digit(b))
            if e.branch(_ceq(a, 0x2D)):
                return fin(-digit(b))
        elif flags[0] and not flags[1]:
            if e.branch(in_set(b, SPACE_CPS)):
                return fin(digit(a))
        raise ValueError("invalid literal for int() with base 16")
    raise Unsupported("int(s, 16): input beyond plain hex digits (sign/space/underscore/0x forms not modelled for len > 2)")
