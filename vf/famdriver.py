"""Plans and runs the family-based checks (C01-C07, C13, C16)."""

from __future__ import annotations

import os
import random
import time

from . import core, family, famcheck, selftest
from . import pestenv as pestenv_mod

STACK_FEATS = {"push", "pushlit", "peek", "peekslice", "peekall", "pop", "popall", "drop"}

LEVEL = {
    "C01": "translation_validation",
    "C02": "translation_validation",
}

FUNCTIONS = [
    "pest.parser.Parser.from_grammar/parse/generate",
    "pest.grammar.codegen.generate.generate_module (+ exec of the generated module)",
    "pest.grammar.rule.Rule.parse/generate",
    "pest.grammar.expressions.{sequence,choice,postfix,prefix,group,terminals}.*.parse/generate",
    "pest.grammar.rules.{special,ascii,unicode}",
    "pest.state.ParserState.*",
    "pest.stack.Stack.*",
    "pest.checkpoint_int.SnapshottingInt.*",
    "pest.grammar.optimizer.Optimizer.optimize + optimizers.{unroller,skippers,squash_choice,inliners}",
    "pest.pairs.Pair/Pairs",
    "pest.exceptions.PestParsingError/error_context/join_with_limit",
]

ASSUME_COMMON = [
    "regex C engine replaced by the AST-level model of vf/rxstub.py for symbolic subjects (validated against the real engine; every path re-run concretely on the real engine)",
    "Parser.BUILTIN / scanner.ESCAPES replaced by symbolic-key-aware containers with the same entries",
    "inputs longer than the stated bound and grammars outside the generated family are outside the claim",
    "case-insensitive literals: the reference slice (C03-C05) constrains their input to ASCII (pest defines ^\"..\" for ASCII only); the self-comparing properties take every code point. A text character that expands under full case folding meeting a VERSION1 (?i) literal gets no verdict (its witness is still run); no such pattern exists on the repaired tree",
    "trusted: CPython, z3, the regex package's own pattern parser",
]


QUICK_TRIVIA = ["ws2", "cmn", "both", "bothn1", "cm", "cmb", "bothb", "cmstack", "bothstack", "wsn", "cmr", "cmrf", "bothm"]


def ref_ok(member) -> bool:
    f = member["features"]
    return "tag" not in f and "LETTER" not in f and "raw" not in f


def select_members(prop: str, tier: str, seed: int):
    rot = QUICK_TRIVIA
    n = len(rot)

    def pick(ci, ki, triv):
        if triv == "none":
            return True
        first = (ci + ki) % n
        return rot.index(triv) in (first, (first + 1 + ki % (n - 1)) % n)

    if tier == "quick":
        # Quick: every (context, kind) pair without trivia, plus two of thirteen trivia configurations per
        # pair, rotated so that every (kind, configuration) and every (context, configuration) pair occurs
        # several times (a pairwise covering of context x kind x trivia).  Thorough: the full product.
        mem = family.family(["none"] + rot, pick=pick)
    else:
        # Thorough: the full product at the quick length bound; one character deeper for every (context, kind) pair
        # without trivia and for three trivia configurations in four contexts (the full product one deeper would take
        # about an hour per check)
        deep = {m["id"] for m in family.family(["none"] + rot, pick=pick) if m["triv"] == "none" or (m["ctx"] in ("top", "star", "alt1", "m@") and m["triv"] in ("both", "bothn1", "cmb"))}
        mem = family.family(list(family.TRIVIA))
        for m in mem:
            m["shallow"] = m["id"] not in deep
    if prop in ("C05", "C01", "C07", "C06"):
        mem += family.stack_family()
    if tier == "thorough":
        mem += family.family2(seed, 400, stack=True)
    out = []
    for m in mem:
        f = m["features"]
        has_stack = bool(f & STACK_FEATS)
        has_triv = "trivia" in f
        has_mod = bool(f & {"mod@", "mod$", "mod!"})
        if prop == "C03":
            if has_stack or has_triv or has_mod or not ref_ok(m):
                continue
        elif prop == "C04":
            if has_stack or not (has_triv or has_mod) or not ref_ok(m):
                continue
        elif prop == "C05":
            if not has_stack or not ref_ok(m):
                continue
        elif prop == "C16":
            if "soi" in f:
                continue
        out.append(m)
    return out


def nks_for(prop: str, tier: str, rule: str, member) -> list[tuple[int, int]]:
    nmax = 4 if tier == "quick" or member.get("shallow") else 5
    main = rule == "r"
    if not main:
        nmax = 2 if tier == "quick" else 3
    if "LETTER" in member["features"]:
        nmax = min(nmax, 3)
    if prop == "C05" and main:
        nmax += 1
    if prop == "C16":
        return [(n, k) for n in range(1, nmax + 1) for k in range(1, n + 1)]
    nks = [(n, 0) for n in range(0, nmax + 1)]
    if prop in ("C01", "C06", "C13") and main:
        nks += [(3, 1), (3, 3), (2, 2)] if tier == "quick" else [(n, k) for n in range(1, nmax + 1) for k in (1, n)]
    return sorted(set(nks))


def modes_for(prop: str, tier: str, seed: int, member) -> list[str]:
    if prop == "C02":
        modes = ["I", "IO", "G", "GO"] + [f"IO:{i}" for i in range(5)] + ["IO:4,3,2,1,0", "IO:4,3", "GO:4,3", "IO:0,1,2,3,4,0,1,2,3,4", "IO:3,4,3", "GO:3,4,3"]
        if tier == "thorough":
            modes += [f"GO:{i}" for i in range(5)]
            rnd = random.Random(f"{seed}/{member['id']}")
            for _ in range(3):
                k = rnd.randint(2, 6)
                cfg = ",".join(str(rnd.randrange(5)) for _ in range(k))
                modes += [f"IO:{cfg}", f"GO:{cfg}"]
        return modes
    return ["I", "G", "IO", "GO"]


def plan(prop: str, tier: str, seed: int, known: core.Known, only: str | None = None):
    regions = known.regions_for(prop)
    tasks = []
    for m in select_members(prop, tier, seed):
        if only and only not in m["id"]:
            continue
        rules = family.start_rules(m)
        if prop in ("C03", "C04", "C05", "C16", "C02"):
            rules = ["r"] + ([r for r in rules if r != "r"] if tier == "thorough" else [])
        unit = m["id"]
        tasks.append(
            {
                "unit": unit,
                "prop": prop,
                "member": m,
                "rules": [(rule, nks_for(prop, tier, rule, m)) for rule in rules],
                "modes": modes_for(prop, tier, seed, m),
                "use_ref": prop in ("C03", "C04", "C05"),
                "regions": {k[len(unit) + 1 :]: v for k, v in regions.items() if k.startswith(unit + "|")},
                "max_paths": 6000 if tier == "quick" else 40000,
                "budget_s": 90 if tier == "quick" else 600,
            }
        )
    tasks += [t for t in bundled_tasks(prop, tier, seed, regions) if not only or only in t["unit"]]
    return tasks


def bundled_tasks(prop: str, tier: str, seed: int, regions: dict) -> list[dict]:
    """The repository's own grammars (tests/grammars, examples) on the inputs of its own tests, with a
    symbolic window of one or two characters replaced / inserted at seeded offsets.

    The neutral AST the reference and the name / tag oracles need is read off python-pest's own parse of
    the grammar file (vf/convert.py; the front end itself is C10's subject)."""
    from . import convert
    from .props import c08

    cp = famcheck.copy_a()
    corp = c08.corpus()
    tasks = []
    for path in c08.grammar_files():
        rel = os.path.relpath(path, pestenv_mod.REPO)
        gtext = open(path, encoding="utf-8").read()
        try:
            rules = convert.conv_rules(cp.parser(gtext))
        except Exception:  # noqa: BLE001  (not convertible / does not load: C11's subject)
            continue
        feats = family.features(rules)
        has_stack = bool(feats & STACK_FEATS)
        has_triv = "trivia" in feats
        has_mod = bool(feats & {"mod@", "mod$", "mod!"})
        if prop == "C03" and (has_stack or has_triv or has_mod):
            continue
        if prop == "C04" and (has_stack or not (has_triv or has_mod)):
            continue
        if prop == "C05" and not has_stack:
            continue
        by_name = {r[0]: r for r in rules}
        tags = sorted({e[1] for r in rules for e in family.walk(r[2]) if e[0] == "tag"})
        member = {"id": f"bundled/{rel}", "text": gtext, "rules": rules, "features": feats, "tags": tags}
        entries = [e for e in corp.get(rel, []) if len(e["text"]) <= 120 and e["rule"] in by_name]
        rnd = random.Random(f"{seed}/{rel}")
        if tier == "quick" and len(entries) > 24:
            entries = rnd.sample(entries, 24)
        for i, en in enumerate(entries):
            t, rule = en["text"], en["rule"]
            if prop == "C16" and "soi" in _reach_features(by_name, rule):
                continue
            r2 = random.Random(f"{seed}/{rel}/{i}")
            cases = []
            ks0 = [0] if prop != "C16" else []
            if prop != "C16":
                cases.append(([t], 0))
            offs = (sorted({r2.randrange(len(t)) for _ in range(6)}) if tier == "quick" else list(range(len(t)))) if t else []
            for off in offs:
                parts = [t[:off], 1, t[off + 1 :]]
                for k in ks0:
                    cases.append((parts, k))
                if prop in ("C01", "C06", "C13", "C16"):
                    for k in sorted({1, off, min(off + 1, len(t))} - {0}):
                        if k <= len(t):
                            cases.append((parts, k))
            k0 = 0 if prop != "C16" else 1
            for off in sorted({r2.randrange(len(t)) for _ in range(1 if tier == "quick" else 10)}) if t else []:
                cases.append(([t[:off], 2, t[off + 2 :]], k0))  # two adjacent characters replaced
            for off in sorted({r2.randrange(len(t) + 1) for _ in range(2)}) if tier == "quick" else range(len(t) + 1):
                if k0 <= len(t) + 1:
                    cases.append(([t[:off], 1, t[off:]], k0))  # one character inserted
            unit = f"bundled/{rel}/{i}:{rule}"
            tasks.append(
                {
                    "unit": unit,
                    "prop": prop,
                    "member": member,
                    "rules": [(rule, cases)],
                    "modes": modes_for(prop, tier, seed, member),
                    "use_ref": prop in ("C03", "C04", "C05"),
                    "regions": {k[len(unit) + 1 :]: v for k, v in regions.items() if k.startswith(unit + "|")},
                    "max_paths": 3000 if tier == "quick" else 20000,
                    "budget_s": 90 if tier == "quick" else 600,
                }
            )
    return tasks


def _reach_features(by_name: dict, start: str) -> set:
    seen, todo, f = set(), [start], set()
    while todo:
        nm = todo.pop()
        if nm in seen or nm not in by_name:
            continue
        seen.add(nm)
        for e in family.walk(by_name[nm][2]):
            f.add(e[0])
            if e[0] == "ref":
                todo.append(e[1])
    return f


def _init():
    famcheck.copy_a()


EXTRA: dict = {}


def preflight(prop: str):
    """Oracle / stub self-tests that block the check (exit 3) when they fail."""
    if prop in ("C03", "C04", "C05"):
        r = selftest.refpeg_golden()
        if r["bad"]:
            raise core.HarnessError(f"refpeg disagrees with pest-derived golden trees: {r['problems'][:2]}")
        return {"refpeg_golden_cases_ok": r["ok"], "refpeg_golden_skipped": r["skipped"]}
    return {}


# ---------------------------------------------------------------------------
# canaries: in-memory mutants of the library that the check must detect (never touch /repo)


def _c_range_ci(cp):
    T = cp.modules["pest.grammar.expressions.terminals"]
    rx = cp.modules["pest.grammar.expressions.terminals"].re

    def parse(self, state, pairs):
        m = rx.compile(self._pattern(), rx.I).match(state.input, state.pos)
        if m:
            state.pos = m.end()
            return True
        state.fail(str(self))
        return False

    T.Range.parse = parse


def _c_unroll_max(cp):
    U = cp.modules["pest.grammar.optimizers.unroller"]
    O = cp.modules["pest.grammar.optimizer"]
    g = cp.modules["pest.grammar"]
    orig = U.unroll

    def unroll(expr, rules):
        if type(expr).__name__ == "RepeatMax":
            return g.Sequence(*[g.Optional(expr.expression)] * (expr.number + 1))
        return orig(expr, rules)

    for st in O.DEFAULT_OPTIMIZER_PASSES:
        if st.name == "unroll":
            st.func = unroll


def _c_choice_no_restore(cp):
    Ch = cp.modules["pest.grammar.expressions.choice"].Choice

    def parse(self, state, pairs):
        for expr in self.expressions:
            state.checkpoint()
            children = []
            if expr.parse(state, children):
                state.ok()
                pairs.extend(children)
                return True
            pos = state.pos
            state.restore()
            state.pos = pos
        return False

    Ch.parse = parse


def _c_repeat_trailing_trivia(cp):
    R = cp.modules["pest.grammar.expressions.postfix"].Repeat

    def parse(self, state, pairs):
        children = []
        while True:
            state.checkpoint()
            if not self.expression.parse(state, children):
                state.restore()
                break
            state.ok()
            pairs.extend(children)
            children.clear()
            state.parse_trivia(children)
        return True

    R.parse = parse


def _c_restore_keeps_stack(cp):
    PS = cp.pest.ParserState

    def restore(self):
        self.user_stack.drop_snapshot()  # stack changes of the abandoned attempt survive
        self.rule_stack.restore()
        self.atomic_depth.restore()
        self.pos = self._pos_history.pop()

    PS.restore = restore


def _c_silent_leaks_children(cp):
    R = cp.modules["pest.grammar.rule"].Rule
    orig = R.parse

    def parse(self, state, pairs):
        n = len(pairs)
        ok = orig(self, state, pairs)
        if ok and pairs[n:] and self.modifier == 0 and pairs[-1].children:
            pairs[-1].children.append(pairs[-1].children[0])  # duplicated child: overlapping siblings
        return ok

    R.parse = parse


def _c_drop_raises(cp):
    D = cp.modules["pest.grammar.expressions.terminals"].Drop

    def parse(self, state, pairs):
        state.user_stack.pop()
        return True

    D.parse = parse


def _c_fail_pos(cp):
    PS = cp.pest.ParserState
    orig = PS.fail

    def fail(self, label, *, pos=None, rule_name=None, force=False):
        orig(self, label, pos=(pos or self.pos) + len(self.input) + 1, rule_name=rule_name, force=force)

    PS.fail = fail


def _c_clamp_start(cp):
    PS = cp.pest.ParserState
    orig = PS.__init__

    def init(self, text, start_pos=0, parser=None):
        orig(self, text, max(0, min(start_pos, len(text) - 1)), parser)

    PS.__init__ = init


CANARIES = {
    "C01": [("interpreter-range-ignores-case", _c_range_ci, "/range/")],
    "C02": [("unroll-{,n}-one-too-many", _c_unroll_max, "/repmax/")],
    "C03": [("choice-leaks-position", _c_choice_no_restore, "/choice3/")],
    "C04": [("repeat-keeps-trailing-trivia", _c_repeat_trailing_trivia, "/star/")],
    "C05": [("restore-keeps-stack-changes", _c_restore_keeps_stack, "stk/alt.plain/")],
    "C06": [("duplicated-child-pair", _c_silent_leaks_children, "/ref2/")],
    "C07": [("drop-raises-on-empty-stack", _c_drop_raises, "/drop/")],
    "C13": [("failure-position-out-of-range", _c_fail_pos, "/lit2/")],
    "C16": [("start-position-clamped", _c_clamp_start, "/lit1/")],
}


def run_canaries(prop: str, tier: str, seed: int, known) -> list[str]:
    """Each canary mutant must make the check report at least one failing path."""
    missed = []
    for name, hook, only in CANARIES.get(prop, []):
        tasks = [t for t in plan(prop, "quick", seed, core.Known.__new__(core.Known) if False else known, only)][:24]
        for t in tasks:
            t["fn"] = "family"
            t["regions"] = {}
        pestenv_mod.COPY_HOOKS[:] = [hook]
        famcheck._COPY_A = None
        try:
            res = core.run_units(None, tasks, init=_init, progress=False, procs=min(8, max(2, len(tasks))))
        finally:
            pestenv_mod.COPY_HOOKS[:] = []
            famcheck._COPY_A = None
        if not any(r["failures"] for r in res):
            missed.append(f"{name} (units {only}: {len(tasks)}, harness errors: {sum(len(r['harness_errors']) for r in res)})")
    return missed


def main(prop: str, tier: str, seed: int, only: str | None = None, record: str | None = None) -> int:
    t0 = time.time()
    known = core.Known()
    if not only:
        missed = run_canaries(prop, tier, seed, known)
        if missed:
            print("HARNESS-ERROR: canary mutant(s) not detected:", missed)
            return core.EXIT_HARNESS
    try:
        extra = preflight(prop)
    except core.HarnessError as e:
        print("HARNESS-ERROR:", e)
        return core.EXIT_HARNESS
    tasks = plan(prop, tier, seed, known, only)
    print(f"{prop} {tier}: {len(tasks)} units", flush=True)
    for t in tasks:
        t["fn"] = "family"
    extra_tasks, extra_note = EXTRA[prop](tier, seed, known) if prop in EXTRA else ([], {})
    results = core.run_units(None, tasks + extra_tasks, init=_init)
    extra.update(extra_note)
    from . import rxstub

    if record:
        os.environ["VERIF_RECORD"] = record
    nmax = max((nk[0] for t in tasks if "rules" in t for _r, nks in t["rules"] for nk in nks if isinstance(nk[0], int)), default=0)
    return core.finish(
        prop,
        tier,
        seed,
        LEVEL.get(prop, "model_checking"),
        results,
        t0=t0,
        rule=(
            "unit = (family grammar, start rule); for every length n <= bound and listed start position the whole "
            "input is symbolic (every code point); one case = one feasible joint path of all execution modes "
            "(distinct by construction: path conditions are disjoint); every path is non-trivial in that it is "
            "a solver-feasible input class on which the property's assertion was evaluated"
        ),
        assumptions=ASSUME_COMMON,
        extra_cov=dict(extra, canaries_detected=[c[0] for c in CANARIES.get(prop, [])] if not only else []),
        functions=FUNCTIONS,
        bounds={"max_len": nmax, "family": "F1" + ("+F2(seed)" if tier == "thorough" else ""), "modes": sorted({m for t in tasks if "modes" in t for m in t["modes"]})[:12]},
        known=known,
    )


def _record(prop, results, path):
    """Maintenance: dump candidate regions for failing units (never used by checks)."""
    import json

    out = {}
    for r in results:
        by_key: dict[str, list] = {}
        for f in r["failures"]:
            if f["status"] == "new":
                by_key.setdefault(f["key"], []).append(f)
        for key, fs in by_key.items():
            out[f"{prop}|{r['unit']}|{key}"] = {
                "vars": sorted({v for f in fs for v in f["vars"]}),
                "paths": [f["pc"] for f in fs],
                "kinds": sorted({f["kind"] for f in fs}),
                "witnesses": [f["witness"] for f in fs][:3],
                "details": [f["detail"] for f in fs][:2],
            }
    with open(path, "w") as f:
        json.dump(out, f, indent=0)
    print(f"recorded {len(out)} failing (unit,n,k) regions to {path}")
