"""C10/C11 comparison of python-pest's grammar front end with the reference."""

from __future__ import annotations

from . import convert, metaref, symx
from .metaref import DenoteUnsupported
from .refpeg import RefUnsupported
from .symx import SymStr

_MODS = {0: "", 2: "_", 4: "@", 8: "$", 16: "!"}


def proxy_leak(e: BaseException) -> bool:
    """A TypeError caused by a proxy object reaching a C function (never a finding).

    Only TypeErrors qualify: a KeyError / IndexError / ValueError raised by the code under
    test is a real outcome even when its message happens to render a symbolic value."""
    if not isinstance(e, TypeError):
        return False
    m = str(e)
    return any(x in m for x in ("SymStr", "SymInt", "SymBool", symx.OPAQUE_MARK, "PatternProxy", "SymLiteral", "non-string"))


def load(cp, text, *, optimized: bool = False):
    """-> ("OK", parser) | ("ERR", exc) | ("EXC", exc)"""
    try:
        return ("OK", cp.parser(text, optimized=optimized))
    except (symx.Unsupported, symx.Inconclusive):
        raise
    except Exception as e:  # noqa: BLE001
        if isinstance(e, cp.pest.PestGrammarError):
            return ("ERR", e)
        if not isinstance(text, str) and proxy_leak(e):
            raise symx.Unsupported(f"proxy leak: {type(e).__name__}: {str(e)[:150]}") from e
        return ("EXC", e)


def built_structure(parser):
    prev = convert.KEEP_GROUPS
    convert.KEEP_GROUPS = True
    try:
        rules = []
        for name, rule in parser.rules.items():
            if type(rule).__name__ != "GrammarRule":
                continue
            rules.append((name, _MODS.get(rule.modifier, "?"), list(rule.doc or ()), metaref.normalize(convert.conv(rule.expression))))
        return {"docs": list(parser.doc or ()), "rules": rules}
    finally:
        convert.KEEP_GROUPS = prev


def denoted_structure(tree, text):
    d = metaref.denote(tree, text)
    rules = [(n, m, docs, metaref.normalize(e)) for n, m, docs, e in d["rules"]]
    # python-pest keeps the last definition of a duplicated rule name in first-definition order;
    # pest rejects duplicates at validation time (not syntax): compare only when names are unique
    return {"docs": d["docs"], "rules": rules}


def compare(cp, text) -> tuple[str, list]:
    """Returns (outcome label, failures).  Failures: (kind, detail)."""
    ref = metaref.ref_parse(text)
    got = load(cp, text)
    fails = []
    if got[0] == "EXC":
        fails.append(("exception", f"{type(got[1]).__name__}: {str(got[1])[:120]}"))
        return "EXC", fails
    if ref[0] == "OK" and got[0] != "OK":
        try:
            denoted_structure(ref[1], text)
        except metaref.DenoteReject:
            return "both-reject", fails  # matches the meta-grammar, but pest's consumer rejects it too
        except DenoteUnsupported:
            pass
        fails.append(("rejects-valid", f"valid pest grammar rejected: {_msg(got[1])}"))
        return "rejects", fails
    if ref[0] != "OK" and got[0] == "OK":
        fails.append(("accepts-invalid", "text is not a pest grammar but a Parser was built"))
        return "accepts", fails
    if ref[0] != "OK":
        return "both-reject", fails
    try:
        want = denoted_structure(ref[1], text)
    except DenoteUnsupported as e:
        raise symx.Unsupported(f"denotation: {e}") from e
    except metaref.DenoteReject as e:
        if got[0] == "OK":
            fails.append(("accepts-invalid", f"pest rejects this text ({e}) but a Parser was built"))
            return "accepts", fails
        return "both-reject", fails
    have = built_structure(got[1])
    names = [r[0] for r in want["rules"]]
    if not _unique(names):
        return "both-accept(dup-names)", fails
    if not metaref.same_struct(want["docs"], have["docs"]):
        fails.append(("grammar-docs", f"want {show(want['docs'])[:80]} have {show(have['docs'])[:80]}"))
    if len(want["rules"]) != len(have["rules"]):
        fails.append(("rule-count", f"want {len(want['rules'])} rules, have {len(have['rules'])}"))
        return "both-accept", fails
    # rule order is not part of the structure (a rule shadowing a built-in keeps the built-in's slot)
    for w in want["rules"]:
        h = next((r for r in have["rules"] if metaref.same_struct(w[0], r[0])), None)
        if h is None:
            fails.append(("rule-name", f"rule {show(w[0])} missing"))
        elif w[1] != h[1]:
            fails.append(("modifier", f"{show(w[0])}: want {w[1]!r} have {h[1]!r}"))
        elif not metaref.same_struct(w[2], h[2]):
            fails.append(("rule-docs", f"{show(w[0])}: want {show(w[2])} have {show(h[2])}"))
        elif not metaref.same_struct(w[3], h[3]):
            fails.append(("structure", f"{show(w[0])}: denotes {show(w[3])} built {show(h[3])}"))
    return "both-accept", fails


def _unique(names) -> bool:
    """Pairwise distinct (symbolic names are compared by the solver)."""
    for i in range(len(names)):
        for j in range(i + 1, len(names)):
            if metaref.same_struct(names[i], names[j]):
                return False
    return True


def _msg(e) -> str:
    try:
        return str(e.args[0])[:100] if e.args else type(e).__name__
    except Exception:  # noqa: BLE001
        return type(e).__name__


def show(x) -> str:
    if isinstance(x, SymStr):
        return "<sym:%d>" % len(x)
    if isinstance(x, tuple):
        return "(" + " ".join(show(i) for i in x) + ")"
    if isinstance(x, list):
        return "[" + " ".join(show(i) for i in x) + "]"
    return repr(x) if isinstance(x, str) else str(x)
