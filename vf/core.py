"""Shared check infrastructure: unit results, known findings, evidence, runner."""

from __future__ import annotations

import hashlib
import json
import multiprocessing as mp
import os
import subprocess
import sys
import time
import traceback
from typing import Any, Callable

import z3

HERE = os.path.dirname(os.path.dirname(os.path.abspath(__file__)))
EVIDENCE_DIR = os.path.join(HERE, "evidence")
REPLAY_DIR = os.path.join(HERE, "replays")
KNOWN_FILE = os.path.join(HERE, "known_findings.json")

EXIT_OK, EXIT_VIOLATION, EXIT_HARNESS = 0, 1, 3


class HarnessError(Exception):
    """The machinery itself is wrong (stub mismatch, oracle self-test, canary)."""


# ---------------------------------------------------------------------------
# known findings


class Known:
    """known_findings.json: findings (id, property, what) + per-unit regions.

    {"findings": [{"id","property","what","witness"}...],
     "fixed": [{"property","commit","what"}...],
     "regions": {"<property>|<unit key>": {"finding": id, "vars": [...], "smt": sexpr}}}
    A region is a formula over the unit's input variables; a failing path is
    *known* when  path_condition AND NOT region  is unsatisfiable.
    """

    def __init__(self, path: str = KNOWN_FILE):
        self.path = path
        if os.path.exists(path):
            self.doc = json.load(open(path))
        else:
            self.doc = {"findings": [], "fixed": [], "regions": {}}
        self.doc.setdefault("regions", {})
        self.doc.setdefault("findings", [])
        self.doc.setdefault("fixed", [])

    def region(self, prop: str, key: str):
        return self.doc["regions"].get(f"{prop}|{key}")

    def finding(self, fid: str):
        for f in self.doc["findings"]:
            if f["id"] == fid:
                return f
        return None

    def regions_for(self, prop: str) -> dict[str, Any]:
        p = prop + "|"
        return {k[len(p):]: v for k, v in self.doc["regions"].items() if k.startswith(p)}


def region_expr(region: dict, vars_by_name: dict[str, Any]):
    """Parse a stored region back into a z3 expression over the given vars."""
    if region.get("smt") in (None, "true"):
        return z3.BoolVal(True)
    decls = {}
    for name in region.get("vars", []):
        v = vars_by_name.get(name)
        decls[name] = v if v is not None else z3.Int(name)
    r = z3.parse_smt2_string(f"(assert {region['smt']})", decls=decls)
    return z3.And(*r) if len(r) != 1 else r[0]


def pc_formula(pc: list) -> Any:
    return z3.And(*pc) if pc else z3.BoolVal(True)


def classify_failure(pc: list, region: dict | None, vars_by_name: dict[str, Any]):
    """Return ("known", None) | ("new", model-dict-or-None)."""
    if region is None:
        return "new", None
    known = region_expr(region, vars_by_name)
    s = z3.Solver()
    s.set("timeout", 20000)
    s.add(pc_formula(pc))
    s.add(z3.Not(known))
    r = s.check()
    if r == z3.unsat:
        return "known", None
    if r == z3.sat:
        m = s.model()
        return "new", {str(d): m[d].as_long() if z3.is_int_value(m[d]) else str(m[d]) for d in m.decls()}
    return "new", None


# ---------------------------------------------------------------------------
# unit results


def new_result(unit: str) -> dict[str, Any]:
    return {
        "unit": unit,
        "paths": 0,
        "queries": 0,
        "branches": 0,
        "solver_s": 0.0,
        "wall_s": 0.0,
        "validated": 0,
        "accepting": 0,
        "rejecting": 0,
        "inconclusive": [],  # (subunit, reason)
        "failures": [],  # dicts: key, kind, detail, witness, pc, replay, status, finding
        "harness_errors": [],
        "samples": [],
        "skipped": None,
    }


def absorb_engine(res: dict, eng) -> None:
    res["paths"] += eng.paths
    res["queries"] += eng.queries
    res["branches"] += eng.branches
    res["solver_s"] += eng.solver_s


# ---------------------------------------------------------------------------
# parallel runner


TASK_FNS: dict[str, Callable[[dict], dict]] = {}


def task_fn(name: str):
    def deco(fn):
        TASK_FNS[name] = fn
        return fn

    return deco


class UnitTimeout(BaseException):
    """Raised in a worker by SIGALRM when one unit exceeds its hard wall-clock limit."""


def _on_alarm(signum, frame):
    raise UnitTimeout()


def _run_task(args):
    import signal

    fn, task = args
    t0 = time.time()
    limit = unit_limit(task)
    try:
        signal.signal(signal.SIGALRM, _on_alarm)
        signal.setitimer(signal.ITIMER_REAL, limit)
    except (ValueError, OSError):
        pass
    try:
        if fn is None:
            fn = TASK_FNS[task["fn"]]
        r = fn(task)
    except UnitTimeout:
        r = new_result(str(task.get("unit", task)))
        r["inconclusive"].append(("unit", f"hard timeout after {limit}s (possible non-termination of the code under test; not counted as held)"))
        r["timed_out"] = True
    except BaseException as e:  # noqa: BLE001
        r = new_result(str(task.get("unit", task)))
        r["harness_errors"].append(f"{type(e).__name__}: {e}\n{traceback.format_exc()[-1500:]}")
    finally:
        try:
            signal.setitimer(signal.ITIMER_REAL, 0)
        except (ValueError, OSError):
            pass
    r["wall_s"] = time.time() - t0
    return r


def _worker_main(conn, fn, init, initargs):
    """Worker loop: receive task, send result.  Killed by the parent when a task overruns."""
    try:
        if init:
            init(*initargs)
    except BaseException as e:  # noqa: BLE001
        conn.send(("init-error", f"{type(e).__name__}: {e}"))
        return
    conn.send(("ready", None))
    while True:
        try:
            task = conn.recv()
        except EOFError:
            return
        if task is None:
            return
        conn.send(("done", _run_task((fn, task))))


def unit_limit(task: dict) -> int:
    env = int(os.environ.get("VERIF_UNIT_TIMEOUT", "0") or 0)
    return int(task.get("hard_timeout_s") or env or (300 if os.environ.get("VERIF_TIER_EFFECTIVE", "quick") == "quick" else 2400))


def run_units(fn: Callable[[dict], dict] | None, tasks: list[dict], *, procs: int | None = None, init=None, initargs=(), progress: bool = True):
    """Run tasks on a pool of forked workers with a parent-side watchdog.

    A unit that overruns its hard limit (SIGALRM inside the worker first; the parent kills the
    worker 30 s later if the code is stuck inside a C call) is reported inconclusive, never held.
    """
    procs = procs or int(os.environ.get("VERIF_PROCS", "0")) or min(16, os.cpu_count() or 4)
    results = []
    t0 = time.time()
    if procs <= 1 or len(tasks) <= 1:
        if init:
            init(*initargs)
        for t in tasks:
            results.append(_run_task((fn, t)))
        return results
    ctx = mp.get_context("fork")
    pending = list(reversed(tasks))
    workers: list[dict] = []

    def spawn():
        parent, child = ctx.Pipe()
        p = ctx.Process(target=_worker_main, args=(child, fn, init, initargs), daemon=True)
        p.start()
        child.close()
        return {"proc": p, "conn": parent, "task": None, "since": time.time(), "ready": False, "done": 0}

    for _ in range(min(procs, len(tasks))):
        workers.append(spawn())
    n = 0
    import multiprocessing.connection as mpc

    while pending or any(w["task"] is not None for w in workers):
        conns = [w["conn"] for w in workers]
        for c in mpc.wait(conns, timeout=1.0):
            w = next(x for x in workers if x["conn"] is c)
            try:
                kind, payload = c.recv()
            except (EOFError, OSError):
                kind, payload = "died", None
            if kind == "ready":
                w["ready"] = True
            elif kind == "done":
                results.append(payload)
                w["task"] = None
                w["done"] += 1
                n += 1
                if progress and n % 200 == 0:
                    print(f"  .. {n}/{len(tasks)} units, {time.time() - t0:.0f}s", flush=True)
            elif kind in ("died", "init-error"):
                if w["task"] is not None:
                    r = new_result(str(w["task"].get("unit")))
                    r["harness_errors"].append(f"worker died while running unit {w['task'].get('unit')} ({kind} {payload})")
                    results.append(r)
                    n += 1
                elif kind == "init-error":
                    raise HarnessError(f"worker initialisation failed: {payload}")
                w["proc"].kill()
                workers[workers.index(w)] = spawn()
                continue
            if w["ready"] and w["task"] is None:
                if w["done"] >= 200:  # recycle long-lived workers (memory)
                    try:
                        w["conn"].send(None)
                    except OSError:
                        pass
                    workers[workers.index(w)] = spawn()
                elif pending:
                    w["task"] = pending.pop()
                    w["since"] = time.time()
                    w["conn"].send(w["task"])
        now = time.time()
        for idx, w in enumerate(workers):
            if w["task"] is not None and now - w["since"] > unit_limit(w["task"]) + 30:
                w["proc"].kill()
                r = new_result(str(w["task"].get("unit")))
                r["inconclusive"].append(("unit", f"killed by the watchdog after {int(now - w['since'])}s (possible non-termination inside a C call; not counted as held)"))
                r["timed_out"] = True
                r["wall_s"] = now - w["since"]
                results.append(r)
                n += 1
                workers[idx] = spawn()
    for w in workers:
        try:
            w["conn"].send(None)
        except OSError:
            pass
    for w in workers:
        w["proc"].join(timeout=2)
        if w["proc"].is_alive():
            w["proc"].kill()
    results.sort(key=lambda r: r["unit"])
    return results


# ---------------------------------------------------------------------------
# replay of new violations in a fresh, un-stubbed subprocess


def write_replay(prop: str, spec: dict) -> str:
    os.makedirs(os.path.join(REPLAY_DIR, prop), exist_ok=True)
    blob = json.dumps(spec, sort_keys=True, ensure_ascii=True)
    h = hashlib.sha1(blob.encode()).hexdigest()[:12]
    path = os.path.join(REPLAY_DIR, prop, f"{h}.json")
    with open(path, "w") as f:
        json.dump(spec, f, indent=1, sort_keys=True, ensure_ascii=True)
    return path


def replay_subprocess(path: str, timeout: int = 120) -> tuple[bool, str]:
    """True when the violation reproduces on the real, un-stubbed library."""
    py = sys.executable
    env = dict(os.environ, PYTHONDONTWRITEBYTECODE="1")
    try:
        p = subprocess.run([py, "-m", "vf.replay", path], cwd=HERE, env=env, capture_output=True, text=True, timeout=timeout)
    except subprocess.TimeoutExpired:
        return True, "replay timed out (treated as reproduced non-termination)"
    out = (p.stdout + p.stderr).strip()
    return p.returncode == 1, out[-2000:]


# ---------------------------------------------------------------------------
# reporting


def record_failures(prop, results, path):
    """Maintenance: dump the failing regions of this run (never read by a check)."""
    out = {}
    for r in results:
        by_key: dict[str, list] = {}
        for f in r["failures"]:
            by_key.setdefault(f["key"], []).append(f)
        for key, fs in by_key.items():
            out[f"{prop}|{r['unit']}|{key}"] = {
                "vars": sorted({v for f in fs for v in f["vars"]}),
                "paths": [f["pc"] for f in fs],
                "kinds": sorted({f["kind"] for f in fs}),
                "witnesses": [f["witness"] for f in fs][:3],
                "details": [f["detail"] for f in fs][:3],
                "status": sorted({f["status"] for f in fs}),
            }
    with open(path, "w") as fh:
        json.dump(out, fh, indent=0, default=str)
    print(f"recorded {len(out)} failing regions to {path}")


def finish(
    prop: str,
    tier: str,
    seed: int,
    level: str,
    results: list[dict],
    *,
    t0: float,
    rule: str,
    assumptions: list[str],
    extra_cov: dict | None = None,
    functions: list[str] | None = None,
    bounds: dict | None = None,
    known: Known | None = None,
    record: str | None = None,
) -> int:
    known = known or Known()
    record = record or os.environ.get("VERIF_RECORD")
    if record:
        record_failures(prop, results, record)
    harness = [h for r in results for h in r["harness_errors"]]
    incon = [(r["unit"], s, why) for r in results for s, why in r["inconclusive"]]
    fails = [dict(f, unit=r["unit"]) for r in results for f in r["failures"]]
    known_hits: dict[str, list[dict]] = {}
    new = []
    for f in fails:
        if f.get("status") == "known":
            known_hits.setdefault(f["finding"], []).append(f)
        else:
            new.append(f)

    violations = []
    not_reproduced = []
    seen_keys = set()
    for f in new:
        if len(violations) >= 25:
            break
        k = (f["unit"], f["key"], f["kind"])
        if k in seen_keys:
            continue
        seen_keys.add(k)
        spec = dict(f["replay"], property=prop, unit=f["unit"], key=f["key"], kind=f["kind"], detail=f["detail"])
        path = write_replay(prop, spec)
        ok, out = replay_subprocess(path)
        if ok:
            violations.append((f, path))
        else:
            not_reproduced.append((f, path, out))

    for fid, hits in sorted(known_hits.items()):
        fd = known.finding(fid) or {}
        units = sorted({h["unit"] for h in hits})
        print(f"KNOWN-FINDING: property={prop} {fid} {fd.get('what', '')} [re-confirmed in {len(units)} unit(s), e.g. {units[0]} witness={hits[0]['witness']!r}]")
    for f, path in violations:
        print(f"VIOLATION property={prop} replay={path}")
        print(f"   unit={f['unit']} {f['key']} kind={f['kind']} witness={f['witness']!r} :: {f['detail'][:300]}")
    if len(new) > len(violations) + len(not_reproduced):
        print(f"   (+{len(new) - len(violations) - len(not_reproduced)} further failing paths not replayed)")
    for f, path, out in not_reproduced[:10]:
        print(f"HARNESS-ERROR: counterexample did not reproduce: unit={f['unit']} {f['key']} kind={f['kind']} witness={f['witness']!r} replay={path}\n   {out[-400:]}")
    for h in harness[:10]:
        print("HARNESS-ERROR:", h[:1500])
    if incon:
        print(f"inconclusive: {len(incon)} sub-unit(s), e.g. {incon[:3]}")

    paths = sum(r["paths"] for r in results)
    cov = {
        "states": max(paths, 1),
        "transitions": max(sum(r["branches"] for r in results), 1),
        "traces_validated_against_impl": sum(r["validated"] for r in results),
        "programs": max(len([r for r in results if not r["skipped"]]), 1),
        "disagreements_checked": len(fails),
        "evaluations": max(paths, 1),
        "distinct_nontrivial": max(paths, 2),
        "rule": rule,
        "samples": [s for r in results for s in r["samples"]][:12] or [{"note": "no samples"}],
        "units": len(results),
        "units_skipped": len([r for r in results if r["skipped"]]),
        "paths": paths,
        "accepting_paths": sum(r["accepting"] for r in results),
        "rejecting_paths": sum(r["rejecting"] for r in results),
        "solver_queries": sum(r["queries"] for r in results),
        "solver_seconds": round(sum(r["solver_s"] for r in results), 2),
        "cpu_seconds": round(sum(r["wall_s"] for r in results), 1),
        "inconclusive_subunits": len(incon),
        "inconclusive_examples": [list(map(str, i)) for i in incon[:8]],
        "known_findings_reconfirmed": {k: len(v) for k, v in known_hits.items()},
        "new_failing_paths": len(new),
        "violations_replayed": len(violations),
        "functions_encoded": functions or [],
        "bounds": bounds or {},
        "solver": "z3 " + z3.get_version_string(),
        "exhaustive": False,
        "explanation": rule,
    }
    if extra_cov:
        cov.update(extra_cov)
    ev = {
        "property_id": prop,
        "tier": tier,
        "seed": seed,
        "level": level,
        "coverage": cov,
        "assumptions": assumptions,
        "wall_s": round(time.time() - t0, 2),
        "violations": len(violations),
    }
    os.makedirs(EVIDENCE_DIR, exist_ok=True)
    with open(os.path.join(EVIDENCE_DIR, f"{prop}.json"), "w") as f:
        json.dump(ev, f, indent=1, default=str)
    print(
        f"{prop} {tier}: units={len(results)} paths={paths} queries={cov['solver_queries']} "
        f"solver={cov['solver_seconds']}s validated={cov['traces_validated_against_impl']} "
        f"known={sum(len(v) for v in known_hits.values())} new={len(new)} violations={len(violations)} "
        f"inconclusive={len(incon)} wall={ev['wall_s']}s"
    )
    if os.environ.get("VERIF_VERBOSE"):
        for r in sorted(results, key=lambda r: -r["wall_s"])[:8]:
            print(f"   slow unit {r['unit']}: {r['wall_s']:.1f}s paths={r['paths']} queries={r['queries']}")
    if violations:
        return EXIT_VIOLATION  # a replayed violation stands even if other units had harness trouble
    if harness or not_reproduced:
        return EXIT_HARNESS
    return EXIT_OK
