"""Reference front end for C10/C11: pest's own meta-grammar evaluated by refpeg,
plus the denotation from the reference parse tree to neutral rule structures.

The meta-grammar's neutral AST lives in golden/meta.json (exported once from
tests/grammars/meta.pest, sha-256 pinned), so the oracle does not depend on
python-pest's front end at run time.
"""

from __future__ import annotations

import hashlib
import json
import os

from . import symx
from .refpeg import Ref, RefUnsupported
from .symx import SymStr

HERE = os.path.dirname(os.path.dirname(os.path.abspath(__file__)))
_META = None


class DenoteUnsupported(Exception):
    pass


def _tup(x):
    if isinstance(x, list):
        return tuple(_tup(i) for i in x)
    return x


def meta_ref() -> Ref:
    global _META
    if _META is None:
        doc = json.load(open(os.path.join(HERE, "golden", "meta.json")))
        _META = (Ref([_tup(r) for r in doc["rules"]], max_steps=2_000_000), doc["sha256"])
    return _META[0]


def meta_file_unchanged(repo: str = os.environ.get("VERIF_REPO", "/repo")) -> bool:
    meta_ref()
    try:
        src = open(os.path.join(repo, "tests", "grammars", "meta.pest"), encoding="utf-8").read()
    except OSError:
        return False
    return hashlib.sha256(src.encode()).hexdigest() == _META[1]


def ref_parse(text):
    """("OK", tree) | ("FAIL",) for a grammar text (str or SymStr)."""
    return meta_ref().parse("grammar_rules", text, 0)


# ---------------------------------------------------------------------------
# reference decoding of literals (concrete text, or symbolic text without escapes)


def _is(text, i, ch) -> bool:
    c = text[i]
    return c == ch


def decode_literal(text, start, end):
    """Decode the escapes of text[start:end] (an inner_str / inner_chr slice)."""
    sl = text[start:end]
    if isinstance(sl, str):
        return _decode_concrete(sl)
    # symbolic: supported when no character of the slice is a backslash
    for i in range(start, end):
        if _is(text, i, "\\"):
            raise DenoteUnsupported("escape sequence with symbolic characters")
    return sl


def _decode_concrete(s: str) -> str:
    out, i = [], 0
    simple = {'"': '"', "\\": "\\", "r": "\r", "n": "\n", "t": "\t", "0": "\0", "'": "'"}
    while i < len(s):
        if s[i] != "\\":
            out.append(s[i])
            i += 1
            continue
        c = s[i + 1]
        if c in simple:
            out.append(simple[c])
            i += 2
        elif c == "x":
            out.append(chr(int(s[i + 2 : i + 4], 16)))
            i += 4
        elif c == "u":
            j = s.index("}", i)
            v = int(s[i + 3 : j], 16)
            if v > 0x10FFFF:
                raise DenoteUnsupported("\\u escape above U+10FFFF (pest rejects it at validation time)")
            out.append(chr(v))
            i = j + 1
        else:  # pragma: no cover - the meta-grammar does not admit it
            raise DenoteUnsupported("escape")
    return "".join(out)


# ---------------------------------------------------------------------------
# denotation


MODS = {"silent_modifier": "_", "atomic_modifier": "@", "compound_atomic_modifier": "$", "non_atomic_modifier": "!"}


def _sl(text, p):
    return text[p[1] : p[2]]


def _upper(text, p) -> int:
    """The upper bound of {n}, {,n}, {m,n}: pest's consumer reports 'cannot repeat 0 times' for 0."""
    v = _num(text, p)
    if v == 0:
        raise DenoteReject("cannot repeat 0 times")
    return v


class DenoteReject(Exception):
    """The text matches the meta-grammar but pest's consumer rejects it (a validation-level error)."""


U32_MAX = 2**32 - 1


def _num(text, p) -> int:
    """A repeat count: pest parses it as u32 and reports 'number cannot overflow u32' otherwise."""
    s = _sl(text, p)
    v = int(s) if isinstance(s, str) else s.__int__()
    if v > U32_MAX:
        raise DenoteReject("number cannot overflow u32")
    return v


def denote(tree, text):
    """-> {"docs": [doc...], "rules": [(name, modifier, [rule docs], expr)]}"""
    docs, rules, pending_docs = [], [], []
    for p in tree:
        if p[0] == "grammar_doc":
            docs.append(_doc_text(text, p))
        elif p[0] == "grammar_rule":
            kids = p[4]
            if kids[0][0] == "line_doc":
                pending_docs.append(_doc_text(text, kids[0]))
                continue
            name = _sl(text, kids[0])
            mod = ""
            expr = None
            for k in kids[1:]:
                if k[0] in MODS:
                    mod = MODS[k[0]]
                elif k[0] == "expression":
                    expr = d_expression(text, k)
            rules.append((name, mod, pending_docs, expr))
            pending_docs = []
    return {"docs": docs, "rules": rules}


def _doc_text(text, p):
    inner = [k for k in p[4] if k[0] == "inner_doc"]
    return _sl(text, inner[0]) if inner else ""


def d_expression(text, p):
    kids = list(p[4])
    if kids and kids[0][0] == "choice_operator":
        kids = kids[1:]  # leading choice operator
    alts: list[list] = [[]]
    for k in kids:
        if k[0] == "term":
            alts[-1].append(d_term(text, k))
        elif k[0] == "choice_operator":
            alts.append([])
        elif k[0] == "sequence_operator":
            pass
    seqs = [a[0] if len(a) == 1 else ("seq", *a) for a in alts]
    return seqs[0] if len(seqs) == 1 else ("choice", *seqs)


POSTFIX = {"optional_operator", "repeat_operator", "repeat_once_operator", "repeat_exact", "repeat_min", "repeat_max", "repeat_min_max"}


def d_term(text, p):  # noqa: PLR0912
    kids = list(p[4])
    tag = None
    i = 0
    if kids[i][0] == "tag_id":
        tag = _sl(text, kids[i])[1:]
        i += 2  # tag_id, assignment_operator
    prefixes = []
    while kids[i][0] in ("positive_predicate_operator", "negative_predicate_operator"):
        prefixes.append("and" if kids[i][0] == "positive_predicate_operator" else "not")
        i += 1
    # node
    k = kids[i]
    if k[0] == "opening_paren":
        node = ("group", d_expression(text, kids[i + 1]))
        i += 3
    else:
        node = d_terminal(text, k)
        i += 1
    for k in kids[i:]:
        n = k[0]
        if n == "optional_operator":
            node = ("opt", node)
        elif n == "repeat_operator":
            node = ("star", node)
        elif n == "repeat_once_operator":
            node = ("plus", node)
        elif n == "repeat_exact":
            v = _upper(text, _first(k, "number"))
            node = ("rep", node, v, v)
        elif n == "repeat_min":
            node = ("rep", node, _num(text, _first(k, "number")), None)
        elif n == "repeat_max":
            node = ("rep", node, None, _upper(text, _first(k, "number")))
        elif n == "repeat_min_max":
            nums = [x for x in k[4] if x[0] == "number"]
            node = ("rep", node, _num(text, nums[0]), _upper(text, nums[1]))
        else:
            raise DenoteUnsupported(n)
    for pre in reversed(prefixes):
        node = (pre, node)
    if tag is not None:
        node = ("tag", tag, node)
    return node


def _first(p, name):
    for k in p[4]:
        if k[0] == name:
            return k
    raise KeyError(name)


def d_terminal(text, k):
    n = k[0]
    if n == "identifier":
        return ("ref", _sl(text, k))
    if n == "string":
        return ("str", d_string(text, k))
    if n == "insensitive_string":
        return ("istr", d_string(text, _first(k, "string")))
    if n == "range":
        chars = [x for x in k[4] if x[0] == "character"]
        return ("range", d_char(text, chars[0]), d_char(text, chars[1]))
    if n == "_push":
        return ("push", d_expression(text, _first(k, "expression")))
    if n == "_push_literal":
        return ("pushlit", d_string(text, _first(k, "string")))
    if n == "peek_slice":
        a = b = None
        seen_op = False
        for x in k[4]:
            if x[0] == "range_operator":
                seen_op = True
            elif x[0] == "integer":
                s = _sl(text, x)
                v = int(s) if isinstance(s, str) else s.__int__()
                if seen_op:
                    b = v
                else:
                    a = v
        return ("peekslice", a, b)
    raise DenoteUnsupported(n)


def d_string(text, p):
    inner = _first(p, "inner_str")
    return decode_literal(text, inner[1], inner[2])


def d_char(text, p):
    inner = _first(p, "inner_chr")
    return decode_literal(text, inner[1], inner[2])


# ---------------------------------------------------------------------------
# normal form of python-pest's rules (via convert.conv) and of the denotation


_KW = {("peek",): "PEEK", ("pop",): "POP", ("drop",): "DROP", ("peekall",): "PEEK_ALL", ("popall",): "POP_ALL", ("any",): "ANY", ("soi",): "SOI", ("eoi",): "EOI"}


def normalize(e):
    """Common normal form: keywords/built-ins as refs, groups kept, tags hoisted out of
    prefix/postfix chains and dropped from literals, 0 / None slice ends distinguished."""
    k = e[0]
    if e in _KW:
        return ("ref", _KW[e])
    if k == "builtin":
        return ("ref", e[1])
    if k in ("seq", "choice"):
        return (k, *[normalize(x) for x in e[1:]])
    if k in ("opt", "star", "plus", "and", "not", "push", "group"):
        inner = normalize(e[1])
        if inner[0] == "tag" and k != "push" and k != "group":
            return ("tag", inner[1], (k, inner[2]))
        return (k, inner)
    if k == "rep":
        inner = normalize(e[1])
        if inner[0] == "tag":
            return ("tag", inner[1], ("rep", inner[2], e[2], e[3]))
        return ("rep", inner, e[2], e[3])
    if k == "tag":
        inner = normalize(e[2])
        return ("tag", e[1], inner)
    return e


def same_struct(a, b) -> bool:
    """Structural equality where string payloads may be SymStr (decided by the solver)."""
    from .famcheck import _same_chars

    if isinstance(a, (str, SymStr)) and isinstance(b, (str, SymStr)):
        return _same_chars(a, b)
    if isinstance(a, tuple) and isinstance(b, tuple):
        return len(a) == len(b) and all(same_struct(x, y) for x, y in zip(a, b))
    if isinstance(a, list) and isinstance(b, list):
        return len(a) == len(b) and all(same_struct(x, y) for x, y in zip(a, b))
    if isinstance(a, symx.SymInt) or isinstance(b, symx.SymInt):
        return bool(a == b)
    return a == b
