"""Loading python-pest from /repo's working tree under the regex shim.

* ``load_copy()`` imports a *fresh* copy of the ``pest`` package (the default
  optimizer rewrites shared built-in rule objects in place, so units must not
  share a copy unless that is what they study).
* ``Copy.parser(...)`` / ``Copy.generated(...)`` build the four execution modes.
* ``norm_result`` is the result normal form shared by all properties.
"""

from __future__ import annotations

import contextlib
import os
import sys
import types
from typing import Any

from . import rxstub, symx
from .symx import SymStr

REPO = os.environ.get("VERIF_REPO", "/repo")
SRC = os.path.join(REPO, "src")


def _ensure_path():
    sys.dont_write_bytecode = True
    # /repo/src must win over the editable install so an edited tree is used
    for p in (REPO, SRC):
        if p in sys.path:
            sys.path.remove(p)
    sys.path.insert(0, REPO)
    sys.path.insert(0, SRC)


class SymKeyDict(dict):
    """dict whose lookups accept SymStr keys (compared symbolically)."""

    def _find(self, k):
        n = len(k)
        for key in dict.keys(self):
            if isinstance(key, str) and len(key) == n and k == key:
                return key
        return None

    def __contains__(self, k):
        if isinstance(k, SymStr):
            return self._find(k) is not None
        return dict.__contains__(self, k)

    def __getitem__(self, k):
        if isinstance(k, SymStr):
            key = self._find(k)
            if key is None:
                raise KeyError(k)
            return dict.__getitem__(self, key)
        return dict.__getitem__(self, k)

    def get(self, k, default=None):
        if isinstance(k, SymStr):
            key = self._find(k)
            return default if key is None else dict.__getitem__(self, key)
        return dict.get(self, k, default)


class SymAwareSet:
    """frozenset stand-in whose membership test accepts SymStr."""

    def __init__(self, items):
        self.items = frozenset(items)

    def __contains__(self, k):
        if isinstance(k, SymStr):
            return any(len(x) == len(k) and k == x for x in sorted(self.items))
        return k in self.items

    def __iter__(self):
        return iter(self.items)

    def __len__(self):
        return len(self.items)


class Copy:
    """One imported copy of the pest package."""

    def __init__(self, modules: dict[str, types.ModuleType]):
        self.modules = modules
        self.pest = modules["pest"]
        self.optimizer_used = False

    @contextlib.contextmanager
    def active(self):
        saved = {k: v for k, v in sys.modules.items() if k == "pest" or k.startswith("pest.")}
        for k in saved:
            del sys.modules[k]
        sys.modules.update(self.modules)
        try:
            yield self
        finally:
            for k in [k for k in sys.modules if k == "pest" or k.startswith("pest.")]:
                del sys.modules[k]
            sys.modules.update(saved)

    # -- building parsers ----------------------------------------------------
    def parser(self, grammar, *, optimized: bool = False, passes=None):
        """Parser.from_grammar(grammar, optimizer=None|DEFAULT|Optimizer(passes))."""
        pest = self.pest
        if passes is not None:
            opt = pest.Optimizer(list(passes))
            self.optimizer_used = True
        elif optimized:
            opt = pest.DEFAULT_OPTIMIZER
            self.optimizer_used = True
        else:
            opt = None
        if callable(grammar):
            # grammar(copy) -> {name: Rule}: the public Parser(rules, optimizer=...) constructor
            return pest.Parser(grammar(self), optimizer=opt)
        return pest.Parser.from_grammar(grammar, optimizer=opt)

    def generated(self, parser, name: str = "generated_parser"):
        """exec(parser.generate()) in a fresh module bound to this copy."""
        code = parser.generate()
        return self.exec_generated(code, name)

    def exec_generated(self, code: str, name: str = "generated_parser"):
        module = types.ModuleType(name)
        with self.active():
            exec(compile(code, filename=f"{name}.py", mode="exec"), module.__dict__)  # noqa: S102
        return module


REAL = False  # replay processes set this: no shim, no proxies


def load_copy(*, stub: bool = True, sym_builtin: bool = True) -> Copy:
    """Import a fresh copy of pest from the working tree."""
    if REAL:
        stub = sym_builtin = False
    _ensure_path()
    if stub:
        rxstub.install()
    saved = {k: v for k, v in sys.modules.items() if k == "pest" or k.startswith("pest.")}
    for k in saved:
        del sys.modules[k]
    try:
        import pest  # noqa: F401

        mods = {k: v for k, v in sys.modules.items() if k == "pest" or k.startswith("pest.")}
    finally:
        for k in [k for k in sys.modules if k == "pest" or k.startswith("pest.")]:
            del sys.modules[k]
        sys.modules.update(saved)
    cp = Copy(mods)
    assert cp.pest.__file__.startswith(SRC), cp.pest.__file__
    if sym_builtin:
        P = cp.pest.Parser
        P.BUILTIN = SymKeyDict(P.BUILTIN)
        sc = mods["pest.grammar.scanner"]
        sc.ESCAPES = SymAwareSet(sc.ESCAPES)
    for hook in COPY_HOOKS:
        hook(cp)
    return cp


COPY_HOOKS: list = []  # canary mutants: functions applied to every freshly loaded copy (harness process only)


# ---------------------------------------------------------------------------
# result normal form


def norm_pair(p) -> tuple:
    return (p.name, p.start, p.end, p.tag, tuple(norm_pair(c) for c in p.children))


def norm_pairs(pairs) -> tuple:
    return tuple(norm_pair(p) for p in pairs)


def _keys(d) -> tuple:
    out = []
    for k in d:
        if isinstance(k, SymStr):
            out.append("<sym>")
        else:
            out.append(k)
    return tuple(sorted(out, key=str))


def run_parse(parserlike, rule: str, text, start_pos: int = 0, *, detail: bool = False) -> tuple:
    """Call parse() and return ("OK", tree) | ("FAIL", pos[, exp, unexp]) | ("EXC", type, msg)."""
    try:
        pairs = parserlike.parse(rule, text, start_pos=start_pos)
    except symx.Unsupported:
        raise
    except symx.Inconclusive:
        raise
    except Exception as e:  # noqa: BLE001
        if type(e).__name__ == "PestParsingError":
            st = e.state
            if detail:
                return ("FAIL", st.furthest_pos, _keys(st.furthest_expected), _keys(st.furthest_unexpected))
            return ("FAIL", st.furthest_pos)
        return ("EXC", type(e).__name__, str(e)[:120])
    return ("OK", norm_pairs(pairs))


def run_parse_exc(parserlike, rule: str, text, start_pos: int = 0):
    """Like run_parse but also returns the exception / Pairs object."""
    try:
        pairs = parserlike.parse(rule, text, start_pos=start_pos)
    except (symx.Unsupported, symx.Inconclusive):
        raise
    except Exception as e:  # noqa: BLE001
        if type(e).__name__ == "PestParsingError":
            return ("FAIL", e.state.furthest_pos), e
        return ("EXC", type(e).__name__, str(e)[:120]), e
    return ("OK", norm_pairs(pairs)), pairs
